# -*- coding: utf-8 -*-
"""
C17 - baton scheduler, scheduler-controlled Lock / Event / Thread start / join, and a fake
pyaudio / _portaudio backend for /repo/audiolazy/lazy_io.py (no repo change: sys.modules entries,
module attributes of audiolazy.lazy_io and class attributes of AudioThread / AudioIO only).

Real OS threads run the real `AudioThread.run`, `AudioIO.play/close`, `AudioThread.stop/pause/play`;
exactly one of them runs at any time.  Every primitive operation on shared state is a *yield point*:

  Lock.acquire / Lock.release               (manager.halting, manager.lock, thread.lock)
  Event.set / clear / is_set / wait         (thread.go)
  thread.halting read / write               (data descriptor installed on AudioThread)
  manager._threads  [0] / append / remove / in   (list subclass)
  backend: PyAudio.open, Stream.stop_stream/start_stream/close, _portaudio.write_stream,
           PyAudio.terminate, PyAudio._streams (read by the assert in close)
  AudioThread.start, AudioThread.join, AudioThread.is_alive (read by AudioIO.play)

A thread arriving at a yield point registers the operation it is about to perform (`pending`, with
its enabledness predicate), and the scheduler decides which thread performs its pending operation
next.  One scheduler step = "perform the pending operation, then run local code up to the next yield
point" - exactly one transition of coq/theories/C17/Model.v.  A blocked primitive is "not enabled".
No enabled thread while some thread has not finished = deadlock; it is an observation, never a hang:
all threads are then released with a SchedAbort exception.  Every wait on a real semaphore has a
watchdog timeout, so a runaway thread or a bug in this file also becomes an observation ("hang").
"""
from __future__ import print_function
import sys, types, threading as _th, struct as _struct, time as _time

WATCHDOG = 20.0       # seconds a thread waits for the baton before the schedule is declared hung

# operation kinds (same numbering as op_of_mpc / op_of_ppc in Check.v)
OPS = ["acquire", "release", "ev_set", "ev_clear", "ev_is_set", "ev_wait", "halting_read",
       "halting_write", "threads_get0", "threads_append", "threads_remove", "threads_contains",
       "open", "write", "stop_stream", "start_stream", "close_stream", "terminate", "streams_read",
       "start", "join", "is_alive", "src_next"]
OPCODE = dict((n, i) for i, n in enumerate(OPS))


class SchedAbort(BaseException):
  """Raised inside implementation threads when the schedule is torn down (deadlock / hang / end)."""


class Ctl(object):
  """Scheduler's view of one thread of the model: tid 0 = control script, tid k+1 = k-th player."""
  def __init__(self, tid):
    self.tid = tid
    self.sem = _th.Semaphore(0)      # released to hand the baton to this thread
    self.ready = _th.Semaphore(0)    # released by a new thread when it reached its first yield point
    self.pending = None              # (opname, enabled_fn)
    self.done = False
    self.warm = False
    self.ident = None


class Scheduler(object):
  def __init__(self, choose, max_steps=4000):
    self.choose = choose             # choose(step_index, enabled_tids, current_tid) -> tid or None
    self.ctls = []                   # by tid
    self.by_ident = {}
    self.steps = []                  # [tid, opcode, [enabled tids]] for every decision
    self.status = None               # None while running, then "completed" / "deadlock" / "hang" / "diverged" / "steps"
    self.aborting = False
    self.current = 0
    self.finish = _th.Semaphore(0)   # released when the run is over (whatever the reason)
    self.max_steps = max_steps
    self.on_end = None               # callback taking the snapshot of the final state
    self.snapshot = None
    self.active = False
    self.glock = _th.Lock()          # protects `status` transitions against watchdog races
    self.cur_mgr = 0                 # manager whose command the control script (tid 0) is executing

  # ------------------------------------------------------------------ registration
  def register(self, tid, ident=None):
    c = Ctl(tid)
    assert tid == len(self.ctls)
    self.ctls.append(c)
    if ident is not None:
      c.ident = ident
      self.by_ident[ident] = c
    return c

  def me(self):
    return self.by_ident.get(_th.get_ident())

  # ------------------------------------------------------------------ the yield point
  def op(self, name, action, enabled=None):
    """Called by the fakes: `action()` is the primitive; `enabled()` says whether it can proceed now."""
    c = self.me()
    if c is None or not self.active:
      # a thread the scheduler does not know (e.g. garbage collector), or set-up / tear-down code
      if self.aborting and enabled is not None and not enabled():
        raise SchedAbort()
      return action()
    if self.aborting:
      if enabled is not None and not enabled():
        raise SchedAbort()
      return action()
    c.pending = (name, enabled)
    if not c.warm:
      # first yield point of a freshly started thread: report back to the starter, wait for a grant
      c.warm = True
      c.ready.release()
      self._wait_for_baton(c)
    else:
      self._dispatch(c)
    c.pending = None
    if self.aborting:
      if enabled is not None and not enabled():
        raise SchedAbort()
    return action()

  def _enabled(self):
    res = []
    for c in self.ctls:
      if c.done or c.pending is None:
        continue
      en = c.pending[1]
      if en is None or en():
        res.append(c.tid)
    return res

  def _end(self, status):
    with self.glock:
      if self.status is None:
        self.status = status
        if self.on_end is not None:
          try:
            self.snapshot = self.on_end()
          except Exception as e:            # pragma: no cover (harness bug)
            self.snapshot = {"snapshot_error": repr(e)}
        self.aborting = True
        first = True
      else:
        first = False
    if first:
      for c in self.ctls:
        c.sem.release()
        c.ready.release()
      self.finish.release()

  def _dispatch(self, c):
    """Thread c holds the baton and is at a yield point (or has just finished): pick the next thread."""
    en = self._enabled()
    if not en:
      if all(x.done for x in self.ctls):
        self._end("completed")
      else:
        self._end("deadlock")
      if not c.done:
        raise SchedAbort()
      return
    if len(self.steps) >= self.max_steps:
      self._end("steps")
      if not c.done:
        raise SchedAbort()
      return
    t = self.choose(len(self.steps), en, self.current)
    if t is None or t not in en:
      self._end("diverged")
      if not c.done:
        raise SchedAbort()
      return
    nxt = self.ctls[t]
    self.steps.append([t, OPCODE[nxt.pending[0]], en, self.cur_mgr if t == 0 else getattr(nxt, "mgr", 0)])
    self.current = t
    if nxt is c:
      return
    nxt.sem.release()
    if not c.done:
      self._wait_for_baton(c)

  def _wait_for_baton(self, c):
    if not c.sem.acquire(timeout=WATCHDOG):
      self._end("hang")
      raise SchedAbort()
    if self.aborting:
      raise SchedAbort()

  # ------------------------------------------------------------------ thread life cycle
  def start_thread(self, tid, real_start, mgr=0):
    """Performed by the starter inside its `start` operation: launches the OS thread and lets it run
    (local code only) up to its first yield point, so that its pending operation is known."""
    c = self.register(tid)
    c.mgr = mgr
    self._starting = c
    real_start()
    if not c.ready.acquire(timeout=WATCHDOG):
      self._end("hang")
      raise SchedAbort()
    if self.aborting:
      raise SchedAbort()

  def thread_body(self, tid, body):
    """Wrapper of the new OS thread's run()."""
    c = self.ctls[tid]
    c.ident = _th.get_ident()
    self.by_ident[c.ident] = c
    try:
      body()
    except SchedAbort:
      pass
    finally:
      c.done = True
      c.pending = None
      if not c.warm:                 # finished without any yield point
        c.warm = True
        c.ready.release()
      elif not self.aborting:
        try:
          self._dispatch(c)
        except SchedAbort:
          pass

  def main_finished(self):
    """The control script is over: hand the baton on and wait for the end of the run."""
    c = self.ctls[0]
    c.done = True
    c.pending = None
    if not self.aborting:
      try:
        self._dispatch(c)
      except SchedAbort:
        pass
    if not self.finish.acquire(timeout=2 * WATCHDOG):
      self._end("hang")


# ---------------------------------------------------------------------- scheduler-controlled primitives
class Env(object):
  """Everything that belongs to one run (one schedule): scheduler, fake backend, recorded events."""
  def __init__(self, sched):
    self.sched = sched
    self.events = []          # backend / driver events in global order
    self.streams = []         # FakeStream objects in order of open
    self.terminated = 0
    self.players = []         # AudioThread objects in order of creation
    self.pas = []             # FakePyAudio objects in order of creation: one per manager
    self.rec_streams = []     # FakeInStream objects in order of record() calls
    self.recordings = []      # the RecStream objects returned by record()
    self.rec_outs = []        # output of every record / rec_stop / rec_take / close command
    self.event_mgr = []       # manager index of every entry of self.events
    self.cur_mgr = 0          # manager whose command the control script is executing

  def emit(self, entry, mgr):
    self.events.append(entry)
    self.event_mgr.append(mgr)

_env = [None]                 # current run


def env():
  return _env[0]


class SchedLock(object):
  def __init__(self):
    self._locked = False
    self._env = env()

  def acquire(self, blocking=True, timeout=-1):
    def act():
      self._locked = True
      return True
    return self._env.sched.op("acquire", act, lambda: not self._locked)

  def release(self):
    def act():
      if not self._locked:
        raise RuntimeError("release unlocked lock")
      self._locked = False
    return self._env.sched.op("release", act)

  def locked(self):
    return self._locked

  __enter__ = acquire

  def __exit__(self, *a):
    self.release()


class SchedEvent(object):
  def __init__(self):
    self._flag = False
    self._env = env()

  def is_set(self):
    return self._env.sched.op("ev_is_set", lambda: self._flag)
  isSet = is_set

  def set(self):
    def act():
      self._flag = True
    return self._env.sched.op("ev_set", act)

  def clear(self):
    def act():
      self._flag = False
    return self._env.sched.op("ev_clear", act)

  def wait(self, timeout=None):
    return self._env.sched.op("ev_wait", lambda: True, lambda: self._flag)


class SchedList(list):
  """manager._threads: the accesses used by lazy_io are yield points."""
  def __init__(self, *a):
    list.__init__(self, *a)
    self._env = env()

  def __getitem__(self, i):
    return self._env.sched.op("threads_get0", lambda: list.__getitem__(self, i))

  def append(self, x):
    return self._env.sched.op("threads_append", lambda: list.append(self, x))

  def remove(self, x):
    return self._env.sched.op("threads_remove", lambda: list.remove(self, x))

  def __contains__(self, x):
    return self._env.sched.op("threads_contains", lambda: list.__contains__(self, x))


class _Halting(object):
  """Data descriptor installed as AudioThread.halting: unsynchronised flag accesses are yield points."""
  def __get__(self, obj, cls=None):
    if obj is None:
      return self
    return obj.__dict__["_c17_env"].sched.op("halting_read", lambda: obj.__dict__["_c17_halting"])

  def __set__(self, obj, val):
    def act():
      obj.__dict__["_c17_halting"] = val
      if val:
        e = obj.__dict__["_c17_env"]
        e.emit(["halt", e.players.index(obj)], e.mgr_of_player(obj))
    obj.__dict__["_c17_env"].sched.op("halting_write", act)


# ---------------------------------------------------------------------- fake backend
class FakeStream(object):
  def __init__(self, pa, idx, kw):
    self._pa, self.idx, self.kw = pa, idx, kw
    self._env = pa._env
    self._stream = ("handle", idx, pa._env)   # what lazy_io passes to _portaudio.write_stream
    self.open = True
    self.written = []                         # (bytes, num_frames) per write

  def stop_stream(self):
    def act():
      self._env.emit(["stop", self.idx], self._pa.mgr)
    self._env.sched.op("stop_stream", act)

  def start_stream(self):
    def act():
      self._env.emit(["start", self.idx], self._pa.mgr)
    self._env.sched.op("start_stream", act)

  def close(self):
    def act():
      self._env.emit(["close", self.idx], self._pa.mgr)
      self.open = False
      self._pa._c17_streams.discard(self)
    self._env.sched.op("close_stream", act)

  def write(self, frames, num_frames=None, exception_on_underflow=False):
    _write_stream(self._stream, frames, num_frames, exception_on_underflow)


class FakeInStream(object):
  """Device stream opened by AudioIO.record: read() delivers, for recording i, chunk j, position t, the
  float sample 1000*i + chunk*j + t (Rec.v: dev), and raises after `c17_avail` chunks.  Recordings are
  only touched by the control thread, so these calls are not yield points."""
  def __init__(self, pa, idx, kw):
    self._pa, self.idx, self.kw = pa, idx, kw
    self.avail = kw.get("c17_avail", 10 ** 6)
    self.open = True
    self.reads = 0

  def read(self, n, exception_on_overflow=True):
    if self.reads >= self.avail:
      raise IOError("fake device: no more input")
    j = self.reads
    self.reads += 1
    return _struct.pack("%df" % n, *[float(1000 * self.idx + n * j + t) for t in range(n)])

  def close(self):
    self.open = False
    self._pa._c17_streams.discard(self)

  def stop_stream(self):
    pass


class FakePyAudio(object):
  def __init__(self):
    self._c17_streams = set()
    self._env = env()
    self.mgr = len(self._env.pas)
    self._env.pas.append(self)
    self.terminated = 0

  @property
  def _streams(self):
    return self._env.sched.op("streams_read", lambda: set(self._c17_streams))

  def open(self, **kw):
    if kw.get("input"):
      e = self._env
      st = FakeInStream(self, len(e.rec_streams), kw)
      e.rec_streams.append(st)
      self._c17_streams.add(st)
      return st
    def act():
      e = self._env
      st = FakeStream(self, len(e.streams), kw)
      e.streams.append(st)
      self._c17_streams.add(st)
      e.emit(["open", st.idx], self.mgr)
      return st
    return self._env.sched.op("open", act)

  def terminate(self):
    def act():
      e = self._env
      e.terminated += 1
      self.terminated += 1
      e.emit(["terminate"], self.mgr)
    self._env.sched.op("terminate", act)

  def get_host_api_count(self):
    return 0


def _write_stream(handle, frames, num_frames, exception_on_underflow=False):
  e = handle[2]
  def act():
    st = e.streams[handle[1]]
    st.written.append((bytes(frames), num_frames))
    e.emit(["write", st.idx, len(st.written) - 1], st._pa.mgr)
  e.sched.op("write", act)


def make_fake_modules():
  pyaudio = types.ModuleType("pyaudio")
  pyaudio.PyAudio = FakePyAudio
  pyaudio.paFloat32, pyaudio.paInt32, pyaudio.paInt16, pyaudio.paInt8, pyaudio.paUInt8 = 1, 2, 8, 16, 32
  pa = types.ModuleType("_portaudio")
  pa.write_stream = _write_stream
  return pyaudio, pa


class _ThreadingShim(object):
  """What `lazy_io.threading` is replaced by while the harness drives the module."""
  Lock = SchedLock
  Event = SchedEvent
  Thread = _th.Thread
  ThreadError = _th.ThreadError


_installed = {}


def install():
  """Installs the fakes (idempotent).  Returns the audiolazy.lazy_io module."""
  if _installed.get("ok"):
    return _installed["lazy_io"]
  pyaudio, pa = make_fake_modules()
  sys.modules["pyaudio"] = pyaudio
  sys.modules["_portaudio"] = pa
  import audiolazy.lazy_io as lazy_io
  lazy_io.threading = _ThreadingShim
  AT, AIO = lazy_io.AudioThread, lazy_io.AudioIO
  AIO.__del__ = lambda self: None            # no close() from the garbage collector
  AT.halting = _Halting()
  orig_run, orig_init = AT.run, AT.__init__

  def __init__(self, *a, **kw):
    # players are numbered in order of construction (before any yield point of the constructor)
    e = env()
    self.__dict__["_c17_env"] = e
    e.players.append(self)
    orig_init(self, *a, **kw)

  def start(self):
    e = self.__dict__["_c17_env"]
    def act():
      tid = len(e.sched.ctls)
      self.__dict__["_c17_tid"] = tid
      e.sched.start_thread(tid, lambda: _th.Thread.start(self), e.mgr_of_player(self))
    e.sched.op("start", act)

  def run(self):
    e = self.__dict__["_c17_env"]
    e.sched.thread_body(self.__dict__["_c17_tid"], lambda: orig_run(self))

  def join(self, timeout=None):
    e = self.__dict__["_c17_env"]
    def en():
      tid = self.__dict__.get("_c17_tid")
      return tid is not None and e.sched.ctls[tid].done
    e.sched.op("join", lambda: None, en)

  def is_alive(self):
    e = self.__dict__["_c17_env"]
    def act():
      tid = self.__dict__.get("_c17_tid")
      return tid is not None and not e.sched.ctls[tid].done
    return e.sched.op("is_alive", act)

  AT.__init__, AT.start, AT.run, AT.join, AT.is_alive = __init__, start, run, join, is_alive
  _th.excepthook = _quiet_excepthook
  _installed["ok"] = True
  _installed["lazy_io"] = lazy_io
  return lazy_io


# ---------------------------------------------------------------------- one run
FSCALE = 8     # float samples are played as v / 8 (dyadic, exact in float32): non-trivial float values


def decode(b, dfmt):
  """Bytes received by the device -> the integers of the case (exact; anything else is kept visible as a
  value no case contains)."""
  n = len(b) // _struct.calcsize(dfmt)
  vals = _struct.unpack("%d%s" % (n, dfmt), b)
  if dfmt in "fd":
    vals = [v * FSCALE for v in vals]
  def exact(v):
    try:
      return int(v) if v == int(v) else 987654321
    except (ValueError, OverflowError):       # nan / inf
      return 987654322
  return [exact(v) for v in vals]


class SchedSource(object):
  """Instrumented audio source: every next() (also the one raising StopIteration) is a yield point, so a
  player can be pre-empted in the middle of filling a chunk."""
  def __init__(self, samples):
    self._it = iter(list(samples))
    self._env = env()

  def __iter__(self):
    return self

  def __next__(self):
    return self._env.sched.op("src_next", lambda: next(self._it))
  next = __next__


def make_audio(kind, data):
  """The same samples as different argument kinds (all consumed one item at a time)."""
  if kind == "tuple":
    return tuple(data)
  if kind == "gen":
    return (v for v in data)
  if kind == "iter":
    return iter(data)
  if kind == "stream":
    from audiolazy import Stream
    return Stream(data)
  if kind.startswith("arr_"):          # array.array of some typecode, equal or not to the stream format
    import array
    tc = kind[4:]
    if tc in "fd":
      return array.array(tc, [float(v) for v in data])
    assert all(v == int(v) for v in data), "integer array needs integral samples"
    return array.array(tc, [int(v) for v in data])
  if kind == "deque":
    import collections
    return collections.deque(data)
  if kind in ("bytes", "bytearray"):
    assert all(v == int(v) and 0 <= v < 256 for v in data)
    return (bytes if kind == "bytes" else bytearray)([int(v) for v in data])
  if kind == "src":
    return SchedSource(data)
  if kind == "src_stream":
    from audiolazy import Stream
    return Stream(SchedSource(data))
  if kind == "src_gen":
    src = SchedSource(data)
    return (v for v in src)
  return list(data)


class BlockError(Exception):
  """Raised by the control script inside a with-block of the manager."""


class PlayerBoom(Exception):
  """What the audio iterable of a "playbad" command raises inside the player thread."""


def _raising(samples):
  for v in samples:
    yield v
  raise PlayerBoom()


def _quiet_excepthook(args, _orig=_th.excepthook):
  if isinstance(args.exc_value, (PlayerBoom, SchedAbort)):
    return
  _orig(args)


def run_schedule(wait, script, choose, dfmt="f", max_steps=4000, strategy="struct", close_via="close"):
  """Runs the control script [["play", chunk_size, channels, [samples], dfmt?], ["playbad", chunk_size,
  channels, [samples], k] (the iterable raises after k whole chunks), ["pause", t], ["resume", t],
  ["stop", t], ["close"]] on a fresh AudioIO(wait) under the scheduler; `choose` picks the thread at
  every step.  Returns the observation (JSON-able)."""
  lazy_io = install()
  sched = Scheduler(choose, max_steps)
  e = Env(sched)
  _env[0] = e
  waits = list(wait) if isinstance(wait, (list, tuple)) else [wait]
  aios = []
  class_threads = lazy_io.AudioIO.__dict__.get("_threads", None)   # only if the class itself carries a list
  for w in waits:
    aio_ = lazy_io.AudioIO(w)                 # scheduler not active yet: primitives pass through
    # the registry becomes a yield-point list WITHOUT changing who shares it: an instance attribute is
    # wrapped per instance, a class-level list (shared by every manager) is wrapped once for the class
    if "_threads" in aio_.__dict__:
      aio_._threads = SchedList(aio_.__dict__["_threads"])
    elif not isinstance(lazy_io.AudioIO._threads, SchedList):
      lazy_io.AudioIO._threads = SchedList(lazy_io.AudioIO._threads)
    aios.append(aio_)
  e.aios = aios
  e.mgr_of_player = lambda p: next((i for i, a in enumerate(aios) if a is p.__dict__.get("device_manager")), 0)
  main = sched.register(0, _th.get_ident())
  main.warm = True

  def status_of(p):
    tid = p.__dict__.get("_c17_tid")
    return 0 if tid is None else (2 if sched.ctls[tid].done else 1)     # new / running / done

  def local_players(m):
    return [p for p in e.players if e.mgr_of_player(p) == m]

  def flags(m):
    return [[status_of(p) == 1, bool(p.__dict__.get("_c17_halting", False))] for p in local_players(m)]

  def lidx(m, t):
    lp = local_players(m)
    return next((i for i, q in enumerate(lp) if q is t), 999)

  def final_of(m):
    aio = aios[m]
    pl = []
    for p in local_players(m):
      st = p.__dict__.get("stream")
      lk = p.__dict__.get("lock")
      go = p.__dict__.get("go")
      pl.append({"status": status_of(p),
                 "halting": bool(p.__dict__.get("_c17_halting", False)),
                 "go": bool(go._flag) if go is not None else False,
                 "tlock": bool(lk._locked) if lk is not None else False,
                 "open": bool(st.open) if st is not None else False,
                 "written": [decode(b, p.dfmt) for b, _ in st.written] if st is not None else [],
                 "nframes": [n for _, n in st.written] if st is not None else [],
                 "nbytes": [len(b) for b, _ in st.written] if st is not None else [],
                 "open_kw": dict((k2, v2) for k2, v2 in sorted(st.kw.items())) if st is not None else {}})
    pend = [-1 if (sched.ctls[0].done or sched.ctls[0].pending is None) else OPCODE[sched.ctls[0].pending[0]]]
    for p in local_players(m):
      tid = p.__dict__.get("_c17_tid")
      if tid is not None:
        c = sched.ctls[tid]
        pend.append(-1 if (c.done or c.pending is None) else OPCODE[c.pending[0]])
    return {"players": pl, "finished": bool(aio.finished), "hlock": bool(aio.halting._locked),
            "mlock": bool(aio.lock._locked),
            "threads": [lidx(m, t) for t in list.__iter__(aio._threads)],
            "started": [lidx(m, t) for t in getattr(aio, "_started", [])],
            "terminated": e.pas[m].terminated if m < len(e.pas) else 0, "pending": pend}

  def project(m):
    """The run as manager m saw it: its own commands, players, device events (local numbering)."""
    lp = local_players(m)
    tid_local = {0: 0}
    for i, p in enumerate(lp):
      if p.__dict__.get("_c17_tid") is not None:
        tid_local[p.__dict__["_c17_tid"]] = i + 1
    steps = [[tid_local.get(t, 999), op, [tid_local[x] for x in en if x in tid_local], m]
             for t, op, en, owner in sched.steps if owner == m]
    sidx = {}
    for st in e.streams:
      if st._pa.mgr == m:
        sidx[st.idx] = len(sidx)
    evs = []
    for ent, em in zip(e.events, e.event_mgr):
      if em != m:
        continue
      ent = list(ent)
      if ent[0] in ("open", "write", "stop", "start", "close"):
        ent[1] = sidx.get(ent[1], 999)
      elif ent[0] == "halt":
        ent[1] = lidx(m, e.players[ent[1]])
      evs.append(ent)
    return {"steps": steps, "events": evs, "final": final_of(m)}

  def snapshot():
    snap = final_of(0)
    reg = getattr(aios[0], "_recordings", [])
    snap["rec"] = {"outs": list(e.rec_outs),
                   "recs": [next((i for i, r in enumerate(e.recordings) if r is x), 999) for x in reg],
                   "open": [bool(st.open) for st in e.rec_streams],
                   "reads": [st.reads for st in e.rec_streams]}
    snap["events"] = [list(x) for x in e.events]   # tear-down (finally clauses of aborted threads) adds more
    if len(aios) > 1:
      snap["mgrs"] = [project(m) for m in range(len(aios))]
    return snap

  sched.on_end = snapshot

  def driver():
    for cmd in script:
      m = 0
      if cmd[0] == "@":                      # ["@", manager index, command]
        m, cmd = cmd[1], cmd[2]
      e.cur_mgr = sched.cur_mgr = m
      aio = aios[m]
      k = cmd[0]
      if k in ("play", "playbad"):
        # ["play", chunk_size, channels, samples, dfmt, kind, how]: kind = argument kind of the audio
        # ("src*" = instrumented source), how = "kw" / "nchannels" (deprecated keyword) / "rate" / "omit"
        fmt = cmd[4] if (k == "play" and len(cmd) > 4) else dfmt
        kind = cmd[5] if (k == "play" and len(cmd) > 5) else "list"
        how = cmd[6] if (k == "play" and len(cmd) > 6) else "kw"
        data = [float(v) / FSCALE for v in cmd[3]] if fmt in "fd" else list(cmd[3])
        if k == "playbad":
          data = _raising(data[:cmd[4] * cmd[1] * cmd[2]])
        else:
          data = make_audio(kind, data)
        try:
          if how == "nchannels":
            aio.play(data, chunk_size=cmd[1], nchannels=cmd[2], dfmt=fmt)
          elif how == "rate":
            aio.play(data, chunk_size=cmd[1], channels=cmd[2], dfmt=fmt, rate=8000)
          elif how == "omit" and cmd[2] == 1 and fmt == "f":
            aio.play(data, chunk_size=cmd[1])               # defaults left out instead of given explicitly
          else:
            aio.play(data, chunk_size=cmd[1], channels=cmd[2], dfmt=fmt)
        except _th.ThreadError:
          e.emit(["play_raise"], m)
      elif k == "record":                    # ["record", chunk_size, chunks the device delivers]
        e.recordings.append(aio.record(chunk_size=cmd[1], c17_avail=cmd[2]))
        e.rec_outs.append(None)
      elif k == "rec_stop":
        if cmd[1] < len(e.recordings):
          e.recordings[cmd[1]].stop()
        e.rec_outs.append(None)
      elif k == "rec_take":
        out = []
        if cmd[1] < len(e.recordings):
          try:
            out = [int(v) for v in e.recordings[cmd[1]].take(cmd[2])]
          except IOError:
            out = "raise"
        e.rec_outs.append(out)
      elif k in ("pause", "resume", "stop"):
        if cmd[1] < len(local_players(m)):
          t = local_players(m)[cmd[1]]
          {"pause": t.pause, "resume": t.play, "stop": t.stop}[k]()
      elif k == "close":
        via = cmd[1] if len(cmd) > 1 else close_via      # how the manager is closed: the model's CClose
        try:
          if via == "terminate":
            aio.terminate()
          elif via == "exit":
            aio.__exit__(None, None, None)
          elif via == "with":
            with aio:
              pass
          elif via == "exc":
            # the with-block is left by an exception raised inside it: same close, then it propagates
            try:
              with aio:
                raise BlockError()
            except BlockError:
              pass
            else:
              raise RuntimeError("the exception raised inside the with-block was swallowed")
          else:
            aio.close()
          e.emit(["close_ret", flags(m)], m)
        except AssertionError:
          e.emit(["assert_fail"], m)
        except (TypeError, ValueError, IOError) as ex:      # close itself raised
          e.emit(["close_raise", type(ex).__name__], m)
        e.rec_outs.append(None)

  saved_default = lazy_io.chunks.default
  lazy_io.chunks.default = lazy_io.chunks[strategy]       # the documented way to pick the playing blockenizer
  sched.active = True
  status_extra = None
  try:
    try:
      driver()
    except SchedAbort:
      pass
    except Exception as ex:                    # an exception the driver does not classify
      status_extra = type(ex).__name__ + ": " + str(ex)[:200]
      sched._end("exception")
    sched.main_finished()
  finally:
    if class_threads is not None:
      lazy_io.AudioIO._threads = class_threads      # un-wrap a class-level registry
    lazy_io.chunks.default = saved_default
    sched.active = False
    sched.aborting = True
    for c in sched.ctls:
      c.sem.release(); c.ready.release()
  # let the OS threads die (they are daemons; a runaway one is left behind)
  for p in e.players:
    if p.__dict__.get("_c17_tid") is not None:
      _th.Thread.join(p, 1.0)
  snap = sched.snapshot or {}
  obs = {"status": sched.status or "hang", "steps": sched.steps,
         "events": snap.pop("events", e.events) if isinstance(snap, dict) else e.events,
         "final": sched.snapshot}
  if status_extra:
    obs["exception"] = status_extra
  if isinstance(snap, dict) and "mgrs" in snap:
    obs["mgrs"] = snap.pop("mgrs")
    for m, pr in enumerate(obs["mgrs"]):
      fin = pr["final"]
      alldone = fin["pending"][0] == -1 and all(p["status"] == 2 for p in fin["players"])
      pr["status"] = obs["status"] if obs["status"] not in ("completed", "deadlock") else (
        "completed" if alldone else "deadlock")
  _env[0] = None
  return obs
