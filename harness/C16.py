# -*- coding: utf-8 -*-
"""C16 - Streamix / ControlStream histories against Model_C16 and the closed-form spec."""
import itertools
from fractions import Fraction
from vlib.framework import Family
from vlib import coqlit as L
from vlib.exactq import ExactQ, to_frac

PID = "C16"
PROP_FILES = ["Prop"]
ALLOWED_AXIOMS = []
RULE = ("histories of Add(delta, data) / Next on a fresh Streamix (exact rational deltas and data, keep on/off, "
        "zero in {0, 0.0, 7/3}); exhaustive small universe + seeded random; non-trivial = at least two events, at least "
        "one fractional delta, and at least one Add after the first Next or overlapping events; ControlStream: "
        "histories of Set/Next, non-trivial = at least two Sets separated by a Next")
EXHAUSTIVE = {"quick": False, "thorough": False}
trusted_base = ["sample values and deltas are exact rationals (ExactQ absorbs the library's float constants 0.5 and 1. exactly)"]
ASSUMPTIONS = ["CPython deque / list.remove / generator semantics as documented",
               "event data are distinct iterator objects (list.remove by identity)"]

DELTAS = [Fraction(0), Fraction(1, 3), Fraction(1, 2), Fraction(1), Fraction(3, 2), Fraction(5, 2)]
ZEROS = [("int", 0), ("float", 0.0), ("q", Fraction(7, 3))]


def fr(x):
  return [x.numerator, x.denominator]


def mk_data(n, k):
  return [fr(Fraction(3 * k + i + 1, (i % 3) + 1)) for i in range(n)]


def gen_mix(tier, rng):
  # exhaustive core: <= 2 events, every placement of the Adds among `total` Nexts
  nexts = 6
  for keep in (False, True):
    for nev in (0, 1, 2):
      for ds in itertools.product(DELTAS, repeat=nev):
        for lens in itertools.product((0, 1, 3), repeat=nev):
          for pos in itertools.combinations_with_replacement(range(0, 4), nev):
            if tier == "quick" and rng.random() > 0.25 and nev == 2:
              continue
            ops, k = [], 0
            for t in range(nexts + 1):
              while k < nev and pos[k] == t:
                ops.append(["add", fr(ds[k]), mk_data(lens[k], k)]); k += 1
              ops.append(["next"])
            z = ZEROS[(nev + len(ops) + sum(lens)) % 3]
            yield {"keep": keep, "zero": [z[0], fr(Fraction(z[1]))], "ops": ops, "dkind": "q",
                   "tags": ["exh", "nev=%d" % nev, "keep" if keep else "nokeep"]}
  # random histories
  n = 600 if tier == "quick" else 12000
  for _ in range(n):
    nev = rng.randrange(0, 9)
    ops = []
    for k in range(nev):
      d = rng.choice(DELTAS + [Fraction(rng.randrange(0, 12), rng.choice([1, 2, 3, 4, 7]))])
      if rng.random() < 0.05:
        d = -d - Fraction(1, 5)
      ops.append(["add", fr(d), [fr(Fraction(rng.randrange(-9, 10), rng.choice([1, 2, 3, 5]))) for _ in range(rng.randrange(0, 6))]])
    nn = rng.randrange(0, 25)
    ops += [["next"]] * nn
    if rng.random() < 0.6:
      rng.shuffle(ops)
    ops += [["next"]] * rng.randrange(0, 4)
    z = rng.choice(ZEROS)
    yield {"keep": rng.random() < 0.3, "zero": [z[0], fr(Fraction(z[1]))], "ops": ops,
           "dkind": rng.choice(["q", "q", "float"]), "tags": ["random", "nev=%d" % min(nev, 4)]}


def _delta(fr_, kind):
  f = Fraction(fr_[0], fr_[1])
  if kind == "float" and f.denominator in (1, 2, 4):
    return float(f) if f.denominator != 1 else int(f)
  return ExactQ(f)


def run_mix(c):
  import audiolazy
  zk, zv = c["zero"]
  zero = {"int": int(Fraction(*zv)), "float": float(Fraction(*zv)), "q": ExactQ(Fraction(*zv))}[zk]
  sm = audiolazy.Streamix(keep=c["keep"], zero=zero)
  out = []
  for op in c["ops"]:
    try:
      if op[0] == "add":
        try:
          sm.add(_delta(op[1], c["dkind"]), [ExactQ(Fraction(a, b)) for a, b in op[2]])
          out.append(["added"])
        except ValueError:
          out.append(["rejected"])
      else:
        try:
          v = sm.take()
          out.append(["item", fr(to_frac(v))])
        except StopIteration:
          out.append(["stop"])
    except Exception as e:
      out.append(["raise", type(e).__name__])
  return {"outs": out}


def q(frl):
  return "(qc (%d) %d)" % (frl[0], frl[1])


def lit_mix(c, o):
  ops = []
  for op in c["ops"]:
    if op[0] == "add":
      ops.append("Add %s %s" % (q(op[1]), L.lst([q(x) for x in op[2]])))
    else:
      ops.append("Next")
  obs = []
  for x in o.get("outs", [["raise", o.get("raise", "?")]]):
    if x[0] == "added": obs.append("BAdded")
    elif x[0] == "rejected": obs.append("BRejected")
    elif x[0] == "item": obs.append("BItem %s" % q(x[1]))
    elif x[0] == "stop": obs.append("BStop")
    else: obs.append("BRaise %s" % L.string(x[1]))
  return "(MC %s %s %s %s)" % (L.boolean(c["keep"]), q(c["zero"][1]), L.lst(ops), L.lst(obs))


def nontrivial_mix(c, o):
  adds = [op for op in c["ops"] if op[0] == "add"]
  if len(adds) < 2:
    return False
  frac = any(op[1][1] != 1 for op in adds)
  first_next = next((i for i, op in enumerate(c["ops"]) if op[0] == "next"), None)
  late = first_next is not None and any(op[0] == "add" for op in c["ops"][first_next:])
  return frac and (late or sum(len(op[2]) for op in adds) > 2)


def gen_ctl(tier, rng):
  vals = [Fraction(1), Fraction(-2, 3), Fraction(5, 2)]
  alphabet = [["next"]] + [["set", fr(v)] for v in vals]
  maxlen = 4 if tier == "quick" else 6
  for n in range(0, maxlen + 1):
    for ops in itertools.product(alphabet, repeat=n):
      yield {"v0": fr(Fraction(7)), "ops": list(ops), "tags": ["ctl", "len=%d" % n]}


def run_ctl(c):
  import audiolazy
  cs = audiolazy.ControlStream(ExactQ(Fraction(*c["v0"])))
  out = []
  try:
    for op in c["ops"]:
      if op[0] == "set":
        cs.value = ExactQ(Fraction(*op[1]))
      else:
        out.append(fr(to_frac(cs.take())))
  except Exception as e:
    return {"raise": type(e).__name__, "vals": out}
  return {"vals": out}


def lit_ctl(c, o):
  ops = ["CSet %s" % q(op[1]) if op[0] == "set" else "CNext" for op in c["ops"]]
  vals = [q(v) for v in o["vals"]]
  if "raise" in o:
    vals.append("(qc 987654321 1)")  # an exception can never equal the model's list
  return "(CC %s %s %s)" % (q(c["v0"]), L.lst(ops), L.lst(vals))


def nontrivial_ctl(c, o):
  kinds = [op[0] for op in c["ops"]]
  s = "".join(k[0] for k in kinds)
  return "sns" in s.replace("nn", "n")


IMPORTS = "From AL Require Import C16.Model C16.Spec C16.Check."
FAMILIES = {
  "mix": Family("mix", IMPORTS, "mcase", "corr_mix", "holds_mix", gen_mix, run_mix, lit_mix, nontrivial_mix),
  "ctl": Family("ctl", IMPORTS, "ccase", "corr_ctl", "holds_ctl", gen_ctl, run_ctl, lit_ctl, nontrivial_ctl),
}
