# -*- coding: utf-8 -*-
"""C16 - Streamix / ControlStream histories against Model_C16 and the closed-form spec."""
import itertools
from fractions import Fraction
from vlib.framework import Family
from vlib import coqlit as L
from vlib.exactq import ExactQ, to_frac
import math
from harness.C16_util import MixRunner, CtlRunner, ValRunner, OBJ_KINDS, F

PID = "C16"
PROP_FILES = ["Prop"]
ALLOWED_AXIOMS = []
RULE = ("round 3b: Streamix over str / bytes / tuple zeros and items (concatenation: the order zero, then events as added, is observable) and over floats bit-exactly (primitive IEEE addition in Coq, strict left-to-right).  round 3: ControlStream values of every kind (None False 0 0.0 '' () list Stream nan inf callables sentinels; reads classified by identity / type), data items as int bool float Fraction ExactQ, coincidences (events ending / starting on the same sample, cumulative times exactly at .5 with even and odd integer part, empty events).  round 2: the same histories with the object read through derived objects (iter, Stream(), operators, map, "
        "copy, thub, an outer Streamix, a filter coefficient) and its last strong reference dropped (del + gc.collect) "
        "before / between reads; event data of every kind (list tuple deque gen iterator Stream thub Streamix "
        "ControlStream expressions, the same container twice); add() positional / keyword, delta int bool float "
        "Fraction ExactQ, zero int bool float Fraction ExactQ default; reads and adds after the end; 2-3 objects "
        "interleaved in one process (families mixes, ctls).  Round 1: "
        "histories of Add(delta, data) / Next on a fresh Streamix (exact rational deltas and data, keep on/off, "
        "zero in {0, 0.0, 7/3}); exhaustive small universe + seeded random; non-trivial = at least two events, at least "
        "one fractional delta, and at least one Add after the first Next or overlapping events; ControlStream: "
        "histories of Set/Next, non-trivial = at least two Sets separated by a Next")
EXHAUSTIVE = {"quick": False, "thorough": False}
trusted_base = ["sample values and deltas are exact rationals (ExactQ absorbs the library's float constants 0.5 and 1. exactly)"]
ASSUMPTIONS = ["CPython deque / list.remove / generator semantics as documented",
               "event data are distinct iterator objects (list.remove by identity); re-iterable containers may repeat",
               "float / Fraction deltas are used only where the float clock stays exact (dyadic), else ExactQ"]

DELTAS = [Fraction(0), Fraction(1, 3), Fraction(1, 2), Fraction(1), Fraction(3, 2), Fraction(5, 2)]
ZEROS = [("int", 0), ("float", 0.0), ("q", Fraction(7, 3))]


def fr(x):
  return [x.numerator, x.denominator]


def mk_data(n, k):
  return [fr(Fraction(3 * k + i + 1, (i % 3) + 1)) for i in range(n)]


def gen_mix_round1(tier, rng):
  # exhaustive core: <= 2 events, every placement of the Adds among `total` Nexts
  nexts = 6
  for keep in (False, True):
    for nev in (0, 1, 2):
      for ds in itertools.product(DELTAS, repeat=nev):
        for lens in itertools.product((0, 1, 3), repeat=nev):
          for pos in itertools.combinations_with_replacement(range(0, 4), nev):
            if tier == "quick" and rng.random() > 0.25 and nev == 2:
              continue
            ops, k = [], 0
            for t in range(nexts + 1):
              while k < nev and pos[k] == t:
                ops.append(["add", fr(ds[k]), mk_data(lens[k], k)]); k += 1
              ops.append(["next"])
            z = ZEROS[(nev + len(ops) + sum(lens)) % 3]
            yield {"keep": keep, "zero": [z[0], fr(Fraction(z[1]))], "ops": ops, "dkind": "q",
                   "tags": ["exh", "nev=%d" % nev, "keep" if keep else "nokeep"]}
  # random histories
  n = 400 if tier == "quick" else 8000
  for _ in range(n):
    nev = rng.randrange(0, 9)
    ops = []
    for k in range(nev):
      d = rng.choice(DELTAS + [Fraction(rng.randrange(0, 12), rng.choice([1, 2, 3, 4, 7]))])
      if rng.random() < 0.05:
        d = -d - Fraction(1, 5)
      ops.append(["add", fr(d), [fr(Fraction(rng.randrange(-9, 10), rng.choice([1, 2, 3, 5]))) for _ in range(rng.randrange(0, 6))]])
      if rng.random() < 0.5:
        ops[-1].append(rand_opts(rng))
    nn = rng.randrange(0, 25)
    ops += [["next"]] * nn
    if rng.random() < 0.6:
      rng.shuffle(ops)
    ops += [["next"]] * rng.randrange(0, 4)
    z = rng.choice(ZEROS)
    yield {"keep": rng.random() < 0.3, "zero": [z[0], fr(Fraction(z[1]))], "ops": ops,
           "dkind": rng.choice(["q", "q", "float"]), "tags": ["random", "nev=%d" % min(nev, 4)]}



EKINDS = ["list", "tuple", "deque", "gen", "iter", "iteronly", "stream", "thub", "smix", "smixiter", "ctlmul", "ctladd",
          "ctl", "repeat"]
DKINDS = ["q", "int", "bool", "float", "frac"]
CALLS = ["pos", "kw", "mixed", "kwrev"]
ZKINDS = ["int", "float", "q", "frac", "bool", "default"]
KEEPK = ["kw", "pos", "int", "attr"]
IKINDS = ["q", "q", "int", "bool", "float", "frac"]
MVIAS = ["iter", "stream", "add0", "radd0", "mul1", "sigadd", "map", "copy", "thub", "mix", "mixkw"]


def rand_opts(rng):
  return {"ek": rng.choice(EKINDS), "dk": rng.choice(DKINDS), "call": rng.choice(CALLS), "ik": rng.choice(IKINDS)}


def rand_zero(rng):
  k = rng.choice(ZKINDS)
  v = Fraction(7, 3) if k in ("q", "frac") and rng.random() < 0.6 else Fraction(rng.choice([0, 0, 2]) if k in ("int", "float", "q", "frac") else 0)
  return [k, fr(v)]


def rand_data(rng, maxlen=5, const=False):
  n = rng.randrange(0, maxlen + 1)
  if const:
    v = fr(Fraction(rng.randrange(-9, 10), rng.choice([1, 2, 3])))
    return [v] * n
  return [fr(Fraction(rng.randrange(-9, 10), rng.choice([1, 2, 3, 5]))) for _ in range(n)]


def rand_adds(rng, nev, neg=0.05):
  """adds in execution order; may reuse an earlier re-iterable container (same object added twice)"""
  adds = []
  for k in range(nev):
    d = rng.choice(DELTAS + [Fraction(rng.randrange(0, 12), rng.choice([1, 2, 3, 4, 8]))])
    if rng.random() < neg:
      d = -d - Fraction(1, 5)
    o = rand_opts(rng)
    data = rand_data(rng, const=o["ek"] in ("ctl", "repeat") or rng.random() < 0.1)
    prev = [j for j in range(k) if adds[j][3].get("ek") in ("list", "tuple", "deque", "iteronly")]
    if prev and rng.random() < 0.15:
      j = rng.choice(prev)
      data, o = adds[j][2], {"same": j, "dk": o["dk"], "call": o["call"]}
    adds.append(["add", fr(d), data, o])
  return adds


def merge(rng, adds, nn):
  """adds keep their order, nn Nexts are placed anywhere"""
  slots = sorted(rng.randrange(0, len(adds) + 1) for _ in range(nn)) if rng.random() < 0.7 else [len(adds)] * nn
  ops, k = [], 0
  for i in range(len(adds) + 1):
    while k < nn and slots[k] == i:
      ops.append(["next"]); k += 1
    if i < len(adds):
      ops.append(adds[i])
  return ops


def with_life(rng, ops, tail):
  """inserts derive / drop: the drop comes after the last add (add needs the object) and after the derive"""
  last_add = max([i for i, op in enumerate(ops) if op[0] == "add"] + [-1])
  pd = rng.randrange(0, len(ops) + 1) if rng.random() < 0.6 else 0
  via = rng.choice(MVIAS)
  ops = ops[:pd] + [["derive", via]] + ops[pd:]
  lo = max(last_add + (2 if pd <= last_add else 1), pd + 1)
  px = rng.randrange(lo, len(ops) + 1)
  ops = ops[:px] + [["drop", rng.random() < 0.7]] + ops[px:]
  return ops + [["next"]] * tail, via


def rand_case(rng, life, nev=None, tag="life"):
  nev = rng.randrange(0, 6) if nev is None else nev
  ops = merge(rng, rand_adds(rng, nev), rng.randrange(0, 14))
  tags = [tag, "nev=%d" % min(nev, 4)]
  if life:
    ops, via = with_life(rng, ops, rng.randrange(1, 12))
    tags.append("via=" + via)
  else:
    ops += [["next"]] * rng.randrange(0, 12)
  return exact_items({"keep": rng.random() < 0.3, "keepk": rng.choice(KEEPK), "zero": rand_zero(rng), "ops": ops,
                      "dkind": "q", "tags": tags})


def exact_items(c):
  """float / Fraction items only next to a dyadic zero (a Fraction(7, 3) zero plus a float item would be inexact)"""
  if c["zero"][0] == "frac" and c["zero"][1][1] not in (1, 2, 4, 8):
    for op in c["ops"]:
      if op[0] == "add" and len(op) > 3:
        op[3]["ik"] = "q"
  return c


def gen_coinc(tier, rng):
  """coincidences: k events (queued before playback) whose ENDS fall on one sample (lengths chosen from the start
  samples), events STARTING on one sample (deltas 0 or sub-sample), cumulative times exactly at n + 1/2 (n even and
  odd, reached directly and as sums like 1/3 + 1/6), empty events in between"""
  halves = [Fraction(1, 2), Fraction(3, 2), Fraction(5, 2), Fraction(7, 2), Fraction(9, 2), Fraction(13, 2)]
  for n in range(120 if tier == "quick" else 1500):
    k = rng.choice([2, 2, 3, 4])
    mode = rng.choice(["ends", "ends", "starts", "ties", "ends+ties"])
    ds, T = [], Fraction(0)
    for i in range(k):
      if mode == "starts":
        d = rng.choice([Fraction(0), Fraction(0), Fraction(1, 3), Fraction(1, 6), Fraction(1, 8)]) if i else rng.choice(DELTAS)
      elif "ties" in mode:
        d = rng.choice(halves) - (T % 1) if rng.random() < 0.7 else rng.choice([Fraction(1, 3), Fraction(1, 6), Fraction(2)])
        d = d if d >= 0 else d + 1
      else:
        d = rng.choice(DELTAS + [Fraction(2), Fraction(7, 3)])
      T += d
      ds.append((d, math.ceil(T - Fraction(1, 2))))
    end = max(st for _, st in ds) + rng.randrange(0, 4)
    adds = []
    for i, (d, st) in enumerate(ds):
      ln = end - st if "ends" in mode else rng.randrange(0, 4)
      if rng.random() < 0.12: ln = 0
      o = rand_opts(rng)
      adds.append(["add", fr(d), [fr(Fraction(rng.randrange(-9, 10), rng.choice([1, 2, 4]))) for _ in range(ln)], o])
    extra = [["add", fr(Fraction(0)), rand_data(rng, 3), rand_opts(rng)]] if rng.random() < 0.3 else []
    pre = rng.randrange(0, 3) if rng.random() < 0.3 else 0
    ops = [["next"]] * pre + adds + [["next"]] * rng.randrange(1, end + 2) + extra + [["next"]] * (end + 6)
    yield exact_items({"keep": rng.random() < 0.25, "keepk": rng.choice(KEEPK), "zero": rand_zero(rng), "ops": ops,
                       "dkind": "q", "tags": ["coinc", mode, "k=%d" % k]})


def gen_kinds(tier, rng):
  """every event KIND x delta type x call style, in a 3-event history with a late add"""
  dvals = {"q": Fraction(1, 3), "int": Fraction(2), "bool": Fraction(1), "float": Fraction(3, 2), "frac": Fraction(5, 2)}
  for i, ek in enumerate(EKINDS + ["ctlinf"]):
    for j, dk in enumerate(DKINDS):
      for call in (CALLS if tier != "quick" else [CALLS[(i + j) % 4], CALLS[(i + j + 1) % 4]]):
        const = ek in ("ctl", "repeat", "ctlinf")
        n2 = 40 if ek == "ctlinf" else 3
        d2 = [fr(Fraction(5, 3))] * n2 if const else mk_data(n2, 1)
        o = {"ek": ek, "dk": dk, "call": call}
        ops = [["add", fr(Fraction(1, 2)), mk_data(2, 0), {"ek": EKINDS[(i + j) % len(EKINDS)], "dk": "frac", "call": call}],
               ["next"], ["add", fr(dvals[dk]), d2, o], ["next"], ["next"],
               ["add", fr(Fraction(0)), mk_data(1 + (i + j) % 3, 2), {"ek": ek if not const else "list", "dk": DKINDS[(j + 1) % 5], "call": "pos"}]]
        ops += [["next"]] * 9
        keep = (i + j) % 4 == 0
        yield {"keep": keep, "keepk": KEEPK[(i + j) % 4], "zero": [ZKINDS[(i + 2 * j) % 6], fr(Fraction(0))], "ops": ops,
               "dkind": "q", "tags": ["kinds", "ek=" + ek, "dk=" + dk]}


def gen_end(tier, rng):
  """reads after the end stay StopIteration; add after the end is accepted and changes nothing"""
  for via in [None] + MVIAS:
    for nev in (0, 1, 2):
      for rep in range(2 if tier == "quick" else 8):
        adds = rand_adds(rng, nev, neg=0.0)
        total = int(sum(F(a[1]) for a in adds)) + 8
        ops = adds + ([["derive", via]] if via and rep % 2 else []) + [["next"]] * total
        ops += [["next"], ["add", fr(rng.choice(DELTAS)), rand_data(rng, 3), rand_opts(rng)], ["next"], ["next"]]
        if via:
          ops += ([["derive", via]] if not rep % 2 else []) + [["drop", True], ["next"], ["next"]]
        yield {"keep": False, "keepk": rng.choice(KEEPK), "zero": rand_zero(rng), "ops": ops, "dkind": "q",
               "tags": ["end", "via=%s" % via]}


def gen_mix(tier, rng):
  for c in gen_mix_round1(tier, rng):
    yield c
  for c in gen_kinds(tier, rng):
    yield c
  for c in gen_end(tier, rng):
    yield exact_items(c)
  for c in gen_coinc(tier, rng):
    yield c
  for _ in range(400 if tier == "quick" else 6000):
    yield rand_case(rng, life=True)
  for _ in range(150 if tier == "quick" else 2000):
    yield rand_case(rng, life=False, tag="args")


def gen_mixes(tier, rng):
  """2-3 mixers alive together: built up front or one after another, operated in an interleaved schedule; twins share
  everything but one ingredient"""
  for _ in range(200 if tier == "quick" else 3000):
    k = rng.choice([2, 2, 3])
    subs = [rand_case(rng, life=rng.random() < 0.3, nev=rng.randrange(1, 5), tag="multi")]
    mode = rng.choice(["indep", "twin", "twin_zero", "twin_keep", "twin_data"])
    while len(subs) < k:
      if mode == "indep":
        subs.append(rand_case(rng, life=rng.random() < 0.3, nev=rng.randrange(0, 5), tag="multi"))
        continue
      t = json_copy(subs[0])
      if mode == "twin_zero": t["zero"] = rand_zero(rng); exact_items(t)
      if mode == "twin_keep": t["keep"] = not t["keep"]
      if mode == "twin_data":
        adds = [op for op in t["ops"] if op[0] == "add"]
        for op in adds:
          op[2] = adds[op[3]["same"]][2] if "same" in op[3] else [[a + b, b] for a, b in op[2]]
      subs.append(t)
    sched = [i for i, c in enumerate(subs) for _ in c["ops"]]
    order = rng.choice(["shuffle", "shuffle", "seq", "rr"])
    if order == "shuffle": rng.shuffle(sched)
    if order == "rr": sched = [i for _, i in sorted((n, i) for i, c in enumerate(subs) for n in range(len(c["ops"])))]
    yield {"subs": subs, "sched": sched, "lazy": rng.random() < 0.5, "tags": ["multi", "k=%d" % k, mode, order]}


def json_copy(x):
  import json
  return json.loads(json.dumps(x))


def run_mix(c):
  r = MixRunner(c)
  out = [o for o in (r.step(op) for op in c["ops"]) if o is not None]
  return {"outs": out + r.finish()}


def run_mixes(c):
  subs = c["subs"]
  rs = [None if c["lazy"] else MixRunner(s) for s in subs]
  pos, outs = [0] * len(subs), [[] for _ in subs]
  for i in c["sched"]:
    if rs[i] is None:
      rs[i] = MixRunner(subs[i])
    o = rs[i].step(subs[i]["ops"][pos[i]])
    pos[i] += 1
    if o is not None:
      outs[i].append(o)
  return {"outs": [o + (r.finish() if r else []) for o, r in zip(outs, rs)]}


def q(frl):
  return "(qc (%d) %d)" % (frl[0], frl[1])


def lit_mix(c, o):
  ops = []
  for op in c["ops"]:
    if op[0] == "add":
      ops.append("Add %s %s" % (q(op[1]), L.lst([q(x) for x in op[2]])))
    elif op[0] == "next":
      ops.append("Next")
  obs = []
  for x in o.get("outs", [["raise", o.get("raise", "?")]]):
    if x[0] == "added": obs.append("BAdded")
    elif x[0] == "rejected": obs.append("BRejected")
    elif x[0] == "item": obs.append("BItem %s" % q(x[1]))
    elif x[0] == "stop": obs.append("BStop")
    else: obs.append("BRaise %s" % L.string(x[1]))
  return "(MC %s %s %s %s)" % (L.boolean(c["keep"]), q(c["zero"][1]), L.lst(ops), L.lst(obs))


def lit_mixes(c, o):
  outs = o.get("outs") if isinstance(o.get("outs"), list) and len(o.get("outs", [])) == len(c["subs"]) else None
  return L.lst([lit_mix(s, {"outs": outs[i]} if outs is not None else {"raise": o.get("raise", "?")})
                for i, s in enumerate(c["subs"])])


def nontrivial_mixes(c, o):
  return len(set(c["sched"][:len(c["sched"]) // 2 + 1])) > 1 and any(nontrivial_mix(s, None) for s in c["subs"])


def nontrivial_mix(c, o):
  adds = [op for op in c["ops"] if op[0] == "add"]
  if len(adds) < 2:
    return False
  frac = any(op[1][1] != 1 for op in adds)
  first_next = next((i for i, op in enumerate(c["ops"]) if op[0] == "next"), None)
  late = first_next is not None and any(op[0] == "add" for op in c["ops"][first_next:])
  return frac and (late or sum(len(op[2]) for op in adds) > 2)


CVIAS = ["iter", "stream", "add0", "radd0", "mul1", "sigadd", "sigmul", "map", "copy", "thub", "mix", "mixkw", "filt"]
CVALS = [Fraction(1), Fraction(-2, 3), Fraction(5, 2)]


def gen_ctl_round1(tier, rng):
  alphabet = [["next"]] + [["set", fr(v)] for v in CVALS]
  maxlen = 4 if tier == "quick" else 6
  for n in range(0, maxlen + 1):
    for ops in itertools.product(alphabet, repeat=n):
      yield {"v0": fr(Fraction(7)), "ops": list(ops), "tags": ["ctl", "len=%d" % n]}


def rand_ctl(rng, via, tag="life"):
  """Set/Next history; the stream is read through `via` from a random point on and the ControlStream object loses its
  last strong reference after the last Set (at once, or some reads later); reads continue afterwards"""
  base = [rng.choice([["next"], ["next"], ["set", fr(rng.choice(CVALS))], ["set", fr(Fraction(rng.randrange(-5, 6), rng.choice([1, 2, 3])))]])
          for _ in range(rng.randrange(0, 8))]
  last_set = max([i for i, op in enumerate(base) if op[0] == "set"] + [-1])
  pd = rng.randrange(0, len(base) + 1) if rng.random() < 0.6 else 0
  ops = base[:pd] + [["derive", via]] + base[pd:]
  lo = max(last_set + (2 if pd <= last_set else 1), pd + 1)
  px = rng.randrange(lo, len(ops) + 1)
  ops = ops[:px] + [["drop", rng.random() < 0.7]] + ops[px:] + [["next"]] * rng.randrange(1, 5)
  return {"v0": fr(Fraction(rng.choice([7, 10, -3]), rng.choice([1, 2]))), "ops": ops, "tags": [tag, "via=" + via]}


def gen_ctl(tier, rng):
  for c in gen_ctl_round1(tier, rng):
    yield c
  # the object never had a name: temporary in an expression, local of a helper, handed straight to a mixer
  for h in ("func", "temp", "tempmix"):
    for v0 in CVALS:
      for n in (1, 4):
        yield {"v0": fr(v0), "helper": h, "ops": [["next"]] * n, "tags": ["helper", h]}
  for via in CVIAS:
    for _ in range(30 if tier == "quick" else 300):
      yield rand_ctl(rng, via)


def gen_ctls(tier, rng):
  for _ in range(150 if tier == "quick" else 2000):
    k = rng.choice([2, 2, 3])
    subs = [rand_ctl(rng, rng.choice(CVIAS), "multi") if rng.random() < 0.5 else
            {"v0": fr(rng.choice(CVALS)), "tags": [],
             "ops": [rng.choice([["next"], ["set", fr(rng.choice(CVALS))]]) for _ in range(rng.randrange(1, 8))]}
            for _ in range(k)]
    if rng.random() < 0.4:      # twins: same start value, different assignments
      for s in subs[1:]:
        s["v0"] = subs[0]["v0"]
    sched = [i for i, c in enumerate(subs) for _ in c["ops"]]
    rng.shuffle(sched)
    yield {"subs": subs, "sched": sched, "lazy": rng.random() < 0.5, "tags": ["multi", "k=%d" % k]}


def run_ctl(c):
  out = []
  try:
    r = CtlRunner(c)
    for op in c["ops"]:
      v = r.step(op)
      if v is not None:
        out.append(v)
  except Exception as e:
    return {"raise": type(e).__name__, "vals": out}
  return {"vals": out}


def run_ctls(c):
  subs = c["subs"]
  res = [{"vals": []} for _ in subs]
  rs, pos = [None] * len(subs), [0] * len(subs)
  for i in ([] if c["lazy"] else range(len(subs))):
    rs[i] = CtlRunner(subs[i])
  for i in c["sched"]:
    op = subs[i]["ops"][pos[i]]
    pos[i] += 1
    if "raise" in res[i]:
      continue
    try:
      if rs[i] is None:
        rs[i] = CtlRunner(subs[i])
      v = rs[i].step(op)
      if v is not None:
        res[i]["vals"].append(v)
    except Exception as e:
      res[i]["raise"] = type(e).__name__
  return {"subs": res}


def lit_ctl(c, o):
  ops = ["CSet %s" % q(op[1]) if op[0] == "set" else "CNext" for op in c["ops"] if op[0] in ("set", "next")]
  vals = [q(v) for v in o.get("vals", [])]
  if "raise" in o:
    vals.append("(qc 987654321 1)")  # an exception can never equal the model's list
  return "(CC %s %s %s)" % (q(c["v0"]), L.lst(ops), L.lst(vals))


def lit_ctls(c, o):
  subs = o.get("subs") or [{"raise": o.get("raise", "?")}] * len(c["subs"])
  return L.lst([lit_ctl(s, so) for s, so in zip(c["subs"], subs)])


def nontrivial_ctl(c, o):
  s = "".join(op[0][0] for op in c["ops"] if op[0] in ("set", "next"))
  if any(op[0] == "drop" for op in c["ops"]) or c.get("helper"):
    i = [op[0] for op in c["ops"]].index("drop") if not c.get("helper") else 0
    return any(op[0] == "next" for op in c["ops"][i:])      # a read after the object became unreferenced
  return "sns" in s.replace("nn", "n")


def nontrivial_ctls(c, o):
  return len(set(c["sched"][:len(c["sched"]) // 2 + 1])) > 1 and any("s" in [op[0][0] for op in s["ops"]] for s in c["subs"])


SEKINDS = ["list", "tuple", "deque", "gen", "iter", "iteronly", "stream", "thub"]
SVIAS = ["iter", "stream", "map", "copy", "thub"]
MUTABLE_ZERO = True    # zero=[] / bytearray(): in scope since /repo 84870a8 (data = data + item): every sample is a fresh
                       # object equal to zero + items in add order, the zero object itself is unchanged afterwards


def seq_history(rng, nev, mk_items, overlap):
  adds = []
  for k in range(nev):
    d = rng.choice([Fraction(0)] * (3 if overlap else 1) + DELTAS + [Fraction(2)])
    if rng.random() < 0.04: d = -d - Fraction(1, 5)
    adds.append(["add", fr(d), mk_items(k), {"ek": rng.choice(SEKINDS), "dk": rng.choice(DKINDS), "call": rng.choice(CALLS)}])
  ops = merge(rng, adds, rng.randrange(0, 6) if rng.random() < 0.5 else 0)
  tags = []
  if rng.random() < 0.25:
    ops, via = with_life(rng, ops, 0)
    ops[[i for i, op in enumerate(ops) if op[0] == "derive"][0]][1] = rng.choice(SVIAS)
  return ops + [["next"]] * rng.randrange(3, 14)


def gen_seq(tier, rng):
  """zero '' / b'' / () (also non-empty zeros) with items of the same type, several events overlapping: the output
  is the concatenation zero, then the playing events in the order they were added"""
  kinds = ["str", "bytes", "tuple"] + (["list", "bytearray"] if MUTABLE_ZERO else [])
  for n in range(360 if tier == "quick" else 4000):
    vk = kinds[n % len(kinds)]
    lo, hi = (97, 123) if vk == "str" else (0, 256) if vk in ("bytes", "bytearray") else (-5, 300)
    tok = lambda: [rng.randrange(lo, hi) for _ in range(rng.choice([1, 1, 1, 0, 2, 3]))]
    nev = rng.choice([0, 1, 2, 3, 3, 4, 5])
    zero = [] if rng.random() < 0.6 else tok()
    ops = seq_history(rng, nev, lambda k: [tok() for _ in range(rng.randrange(0, 6))], overlap=True)
    yield {"vkind": vk, "keep": rng.random() < 0.3, "keepk": rng.choice(KEEPK), "zero": ["seq", zero], "ops": ops,
           "tags": ["seq", vk, "nev=%d" % min(nev, 4), "zero=" + ("empty" if not zero else "nonempty")]}


FVALS = [1e16, -1e16, 1.0, -1.0, 0.1, 0.2, 0.3, 3.0, 1e-16, 2.0 ** 53, -(2.0 ** 53), 0.5, 1e100, -1e100, 1e-320, 0.0, -0.0,
         1.0000000000000002, 123456789.125, 1 / 3.0]


def gen_flt(tier, rng):
  """float zero and float items, three or more events overlapping, values whose sum depends on the order and on the
  rounding of every partial sum (1e16 + 1 - 1e16, 0.1 + 0.2 + 0.3 ...): every output bit-exact"""
  for n in range(360 if tier == "quick" else 4000):
    nev = rng.choice([1, 2, 3, 3, 4, 5, 6])
    ln = rng.randrange(1, 6)
    mk = lambda k: [rng.choice(FVALS).hex() if rng.random() < 0.8 else (rng.random() * 10 ** rng.randrange(-3, 17)).hex()
                    for _ in range(rng.randrange(max(1, ln - 1), ln + 2))]
    zero = rng.choice([0.0, 0.0, -0.0, 1.0, 0.1, 1e16, -1e16, 1e-16]).hex()
    ops = seq_history(rng, nev, mk, overlap=True)
    yield {"vkind": "float", "keep": rng.random() < 0.3, "keepk": rng.choice(KEEPK), "zero": ["float", zero], "ops": ops,
           "tags": ["flt", "nev=%d" % min(nev, 4)]}


def flit(h):
  if "inf" in h or "nan" in h:
    return "nan" if "nan" in h else ("neg_infinity" if h.startswith("-") else "infinity")
  return "(%s)%%float" % h


def lit_gen(c, o):
  fl = c["vkind"] == "float"
  val = flit if fl else (lambda x: L.lst([L.z(t) for t in x]))
  ops = []
  for op in c["ops"]:
    if op[0] == "add": ops.append("Add %s %s" % (q(op[1]), L.lst([val(x) for x in op[2]])))
    elif op[0] == "next": ops.append("Next")
  obs = []
  for x in o.get("outs", [["raise", o.get("raise", "?")]]):
    obs.append({"added": "GAdded", "rejected": "GRejected", "stop": "GStop"}.get(x[0]) or
               ("GItem %s" % val(x[1]) if x[0] == "item" else "GRaise %s" % L.string(str(x[1]))))
  return "(GC %s %s %s %s)" % (L.boolean(c["keep"]), val(c["zero"][1]), L.lst(ops), L.lst(obs))


def overlap3(c, o):
  """some output is the sum of the zero and at least two items"""
  adds = [op for op in c["ops"] if op[0] == "add" and F(op[1]) >= 0 and op[2]]
  return len(adds) >= 2 and sum(1 for x in o.get("outs", []) if x[0] == "item") >= 2


VVIAS = ["iter", "stream", "map", "copy", "thub"]     # routes that hand the value on untouched
VPOOL = ([["none"], ["bool", False], ["bool", True], ["int", 0], ["int", 1], ["int", -(2 ** 63)], ["float", [0, 1]],
          ["float", [5, 2]], ["frac", [0, 1]], ["q", [0, 1]], ["q", [7, 3]], ["str", ""], ["str", "None"], ["str", "a"]]
         + [["obj", i] for i in range(len(OBJ_KINDS))])


def vtag(v):
  return "v=" + (OBJ_KINDS[v[1]] if v[0] == "obj" else v[0] + (":" + str(v[1]) if v[0] in ("bool", "str") else ""))


def gen_ctlv(tier, rng):
  """every value KIND as constructor argument, as a later assignment, assigned twice, followed by ordinary values;
  then random histories over the pool, read directly or through a derived object, with the object dropped"""
  objs = list(OBJ_KINDS)
  num = ["int", 7]
  for v in VPOOL:
    for w in (num, ["none"], ["obj", 3]):
      yield {"v0": v, "objs": objs, "ops": [["next"], ["next"], ["set", w], ["next"], ["set", v], ["next"], ["next"]], "tags": ["ctor", vtag(v)]}
      yield {"v0": w, "objs": objs, "ops": [["next"], ["set", v], ["next"], ["next"], ["set", v], ["next"], ["set", w], ["next"], ["next"]], "tags": ["assign", vtag(v)]}
      yield {"v0": w, "objs": objs, "ops": [["set", v], ["set", w], ["next"], ["set", v], ["derive", VVIAS[len(vtag(v)) % 5]], ["next"], ["drop", True], ["next"]], "tags": ["derived", vtag(v)]}
  for _ in range(300 if tier == "quick" else 4000):
    yield rand_ctlv(rng, objs)


def rand_ctlv(rng, objs, tag="random"):
  base = [["next"] if rng.random() < 0.5 else ["set", rng.choice(VPOOL)] for _ in range(rng.randrange(1, 9))]
  c = {"v0": rng.choice(VPOOL), "objs": objs, "ops": base + [["next"]], "tags": [tag]}
  if rng.random() < 0.4:
    last_set = max([i for i, op in enumerate(base) if op[0] == "set"] + [-1])
    pd = rng.randrange(0, len(base) + 1)
    ops = base[:pd] + [["derive", rng.choice(VVIAS)]] + base[pd:]
    px = rng.randrange(max(last_set + (2 if pd <= last_set else 1), pd + 1), len(ops) + 1)
    c["ops"] = ops[:px] + [["drop", rng.random() < 0.7]] + ops[px:] + [["next"]] * rng.randrange(1, 4)
    c["tags"].append("life")
  return c


def gen_ctlvs(tier, rng):
  for _ in range(100 if tier == "quick" else 1500):
    subs = [rand_ctlv(rng, list(OBJ_KINDS), "multi") for _ in range(rng.choice([2, 2, 3]))]
    sched = [i for i, c in enumerate(subs) for _ in c["ops"]]
    rng.shuffle(sched)
    yield {"subs": subs, "sched": sched, "lazy": rng.random() < 0.5, "tags": ["multi", "k=%d" % len(subs)]}


def run_ctlv(c):
  r = ValRunner(c)
  return {"vals": [v for v in (r.step(op) for op in c["ops"]) if v is not None]}


def run_ctlvs(c):
  subs = c["subs"]
  rs = [None if c["lazy"] else ValRunner(s) for s in subs]
  pos, vals = [0] * len(subs), [[] for _ in subs]
  for i in c["sched"]:
    if rs[i] is None:
      rs[i] = ValRunner(subs[i])
    v = rs[i].step(subs[i]["ops"][pos[i]])
    pos[i] += 1
    if v is not None:
      vals[i].append(v)
  return {"subs": [{"vals": v} for v in vals]}


def vlit(v):
  k = v[0]
  if k == "none": return "VNone"
  if k == "bool": return "(VBool %s)" % L.boolean(bool(v[1]))
  if k == "int": return "(VInt %s)" % L.z(int(v[1]))
  if k == "float": return "(VFloat %s)" % q(v[1])
  if k in ("q", "frac"): return "(VQ %s)" % q(v[1])
  if k == "str": return "(VStr %s)" % L.string(v[1])
  if k == "obj": return "(VObj %s)" % L.nat(v[1])
  if k == "stopped": return "VStopped"
  return "(VRaised %s)" % L.string(str(v[1] if len(v) > 1 else "?"))


def lit_ctlv(c, o):
  ops = ["(CSet %s)" % vlit(op[1]) if op[0] == "set" else "CNext" for op in c["ops"] if op[0] in ("set", "next")]
  vals = [vlit(v) for v in o["vals"]] if "vals" in o else [vlit(["raise", o.get("raise", "?")])]
  return "(VC %s %s %s)" % (vlit(c["v0"]), L.lst(ops), L.lst(vals))


def lit_ctlvs(c, o):
  subs = o.get("subs") or [{"raise": o.get("raise", "?")}] * len(c["subs"])
  return L.lst([lit_ctlv(s, so) for s, so in zip(c["subs"], subs)])


def nontrivial_ctlv(c, o):
  vals = [c["v0"]] + [op[1] for op in c["ops"] if op[0] == "set"]
  return any(v[0] not in ("int", "float", "q", "frac") or v[1] in (0, [0, 1]) for v in vals) and \
    sum(op[0] == "next" for op in c["ops"]) >= 2


IMPORTS = "From AL Require Import C16.Model C16.Spec C16.Check."
FAMILIES = {
  "mix": Family("mix", IMPORTS, "mcase", "corr_mix", "holds_mix", gen_mix, run_mix, lit_mix, nontrivial_mix),
  "ctl": Family("ctl", IMPORTS, "ccase", "corr_ctl", "holds_ctl", gen_ctl, run_ctl, lit_ctl, nontrivial_ctl),
  "mixes": Family("mixes", IMPORTS, "(list mcase)", "corr_mixes", "holds_mixes", gen_mixes, run_mixes, lit_mixes,
                  nontrivial_mixes),
  "ctls": Family("ctls", IMPORTS, "(list ccase)", "corr_ctls", "holds_ctls", gen_ctls, run_ctls, lit_ctls,
                 nontrivial_ctls),
  "seq": Family("seq", IMPORTS, "(gcase Seq_addable)", "corr_seq", "holds_seq", gen_seq, run_mix, lit_gen, overlap3),
  "flt": Family("flt", IMPORTS + " From Coq Require Import PrimFloat.", "(gcase Flt_addable)", "corr_flt", "holds_flt",
                gen_flt, run_mix, lit_gen, overlap3),
  "ctlv": Family("ctlv", IMPORTS, "vcase", "corr_ctlv", "holds_ctlv", gen_ctlv, run_ctlv, lit_ctlv, nontrivial_ctlv),
  "ctlvs": Family("ctlvs", IMPORTS, "(list vcase)", "corr_ctlvs", "holds_ctlvs", gen_ctlvs, run_ctlvs, lit_ctlvs,
                  lambda c, o: any(nontrivial_ctlv(s, None) for s in c["subs"])),
}
