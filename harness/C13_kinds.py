# -*- coding: utf-8 -*-
"""C13 - iterable design parameters of every KIND, interleaved consumption of two live results and
re-use of one argument object (family "stream" of harness/C13.py).

Spec demanded by `holds`: the n-th values of every coefficient of the design called with iterable
parameter(s) equal, bit for bit, the coefficients of the constant design at the n-th parameter values, and
every coefficient stream ends exactly when the (shortest) parameter does.  Kinds on which the unchanged
library raises TypeError because a raw Python container does not support `-x` / `x - pi` (see
expected_ok) are outside the property text: nothing is demanded there unless the call succeeds."""
import collections, array, itertools
from fractions import Fraction

KINDS = ["Stream", "thub", "list", "tuple", "deque", "dequeb", "gen", "iter", "onlyiter", "array", "map", "chain"]
REITERABLE = ("list", "tuple", "deque", "dequeb", "onlyiter", "array")


class OnlyIter(object):
  """iterable with nothing but __iter__"""
  def __init__(self, vals):
    self.vals = list(vals)
  def __iter__(self):
    return iter(self.vals)


def wrap(vals, kind):
  import audiolazy
  vals = list(vals)
  if kind == "Stream": return audiolazy.Stream(vals)
  if kind == "thub": return audiolazy.thub(audiolazy.Stream(vals), 1)
  if kind == "list": return list(vals)
  if kind == "tuple": return tuple(vals)
  if kind == "deque": return collections.deque(vals)
  if kind == "dequeb": return collections.deque(vals, maxlen=len(vals))
  if kind == "gen": return (v for v in vals)
  if kind == "iter": return iter(vals)
  if kind == "onlyiter": return OnlyIter(vals)
  if kind == "array": return array.array("d", vals)
  if kind == "map": return map(float, vals)
  if kind == "chain": return itertools.chain(vals[:1], vals[1:])
  raise ValueError(kind)


def contents(obj):
  return list(obj.vals) if isinstance(obj, OnlyIter) else list(obj)


# (design, which-parameters-are-iterable) -> kinds the unchanged library supports; "all" or only Stream / thub
def expected_ok(design, which, kind):
  if kind in ("Stream", "thub"):
    return True
  fam, strat = design.split(".")
  if fam in ("lowpass", "highpass"):
    return strat in ("pole", "z")                 # the *_exp strategies compute exp(-cutoff) / exp(cutoff - pi)
  if fam == "comb":
    return strat != "tau"                         # -delay / tau
  if design == "gammatone.klapuri" or design == "resonator.freq_poles_exp":
    return True
  if fam == "resonator":
    if which == [1]:
      return True
    if which == [0]:
      return False                                # cos(freq) * (2 * R): Stream * float only
    return kind not in ("iter", "array")
  return False


def maker(design, fixed):
  """callable taking the (possibly iterable) parameters of the design"""
  import audiolazy
  fam, strat = design.split(".")
  sd = getattr(audiolazy, fam)[strat]
  if fam == "comb":
    return lambda a: sd(fixed, a)                 # fixed = delay; the parameter is alpha / tau
  return sd


def coef_streams(f):
  """[(position, value-or-Stream)] for every coefficient of every section, in a fixed order"""
  import audiolazy
  secs = list(f) if isinstance(f, audiolazy.CascadeFilter) else [f]
  out = []
  for si, s in enumerate(secs):
    for di, d in enumerate((s.numdict, s.dendict)):
      for k in sorted(d):
        out.append(((si, di, k), d[k]))
  return out


def take_rows(fs, n, extra=3):
  """consumes the coefficient streams of all filters in fs ALTERNATELY, one value at a time"""
  import audiolazy
  cs = [[(pos, iter(v) if isinstance(v, audiolazy.Stream) else v) for pos, v in coef_streams(f)] for f in fs]
  rows = [[[pos, []] for pos, _ in c] for c in cs]
  live = [[True for _ in c] for c in cs]
  for i in range(n + extra):
    for a, c in enumerate(cs):
      for j, (pos, v) in enumerate(c):
        if not hasattr(v, "__next__"):             # constant coefficient
          if i < n:
            rows[a][j][1].append(v)
        elif live[a][j]:
          try:
            rows[a][j][1].append(next(v))
          except StopIteration:
            live[a][j] = False
  return [r for fr in rows for r in fr]


def const_rows(mk, params, n):
  """the same coefficient positions of the constant designs at the n parameter tuples"""
  per = [coef_streams(mk(*p)) for p in params]
  return [[list(per[0][j][0]), [per[i][j][1] for i in range(n)]] for j in range(len(per[0]))]


def hexv(v):
  if isinstance(v, float):
    return v.hex()
  f = Fraction(v)
  return [f.numerator, f.denominator]


def run_kind(c):
  """observation {"stream": rows, "const": rows} or {"raise": ...}; rows are [position, [values]]"""
  design, kind, which, mode = c["design"], c["kind"], c["which"], c["mode"]
  n = len(c["p"][which[0]])
  mk = maker(design, c.get("delay"))
  plists = c["p"]                                  # one list of doubles per parameter
  def args_for(pl, shared=None):
    out = []
    for i, vals in enumerate(pl):
      if i in which:
        out.append(shared[i] if shared is not None else wrap(vals, kind))
      else:
        out.append(vals[0])
    return out
  def tuples(pl):
    return [tuple(v[i] if j in which else v[0] for j, v in enumerate(pl)) for i in range(n)]
  try:
    if mode == "single":
      fs = [mk(*args_for(plists))]
      consts = const_rows(mk, tuples(plists), n)
      srows = take_rows(fs, n)
    elif mode == "interleave":                     # two live results, different values, consumed alternately
      pl2 = [list(reversed(v)) for v in plists]
      fs = [mk(*args_for(plists)), mk(*args_for(pl2))]
      consts = const_rows(mk, tuples(plists), n) + const_rows(mk, tuples(pl2), n)
      srows = take_rows(fs, n)
    else:                                          # "samearg": ONE argument object given to two calls
      shared = {i: wrap(plists[i], kind) for i in which}
      fs = [mk(*args_for(plists, shared)), mk(*args_for(plists, shared))]
      consts = const_rows(mk, tuples(plists), n) * 2
      srows = take_rows(fs, n)
      for i in which:                              # the caller's argument still holds its original contents
        srows.append([[9, 9, i], contents(shared[i])])
        consts.append([[9, 9, i], list(plists[i])])
    return {"stream": [[list(pos), [hexv(v) for v in vals]] for pos, vals in srows],
            "const": [[list(pos), [hexv(v) for v in vals]] for pos, vals in consts]}
  except Exception as e:
    return {"raise": type(e).__name__, "msg": str(e)[:100]}


# ------------------------------------------------------------------ user-settable StrategyDict state (class i)
class tweaked(object):
  """with tweaked("comb", setdef="ff", realias=["alpha", "ff"]): ...  temporarily rebinds the default strategy
  and / or one alias of a StrategyDict of the library, restoring both afterwards.  A strategy called by its own
  name must not depend on either."""
  def __init__(self, sd_name, setdef=None, realias=None):
    self.sd_name, self.setdef, self.realias = sd_name, setdef, realias

  def __enter__(self):
    import audiolazy
    self.sd = getattr(audiolazy, self.sd_name)
    self.old_default = self.sd.default
    self.old_alias = None
    if self.setdef:
      self.sd.default = self.sd[self.setdef]
    if self.realias:
      name, member = self.realias
      self.old_alias = self.sd[name]
      self.sd[name] = self.sd[member]
    return self.sd

  def __exit__(self, *exc):
    if self.realias:
      self.sd[self.realias[0]] = self.old_alias
    self.sd.default = self.old_default
    return False


def call_strategy(sd_name, member, args, kwargs=None, setdef=None, realias=None, via="name"):
  """calls sd[member] (via == "name": attribute access; "item": sd[alias]; "call": sd(...), which must behave
  as the strategy installed as default - the harness installs `member` itself in that case)"""
  kwargs = kwargs or {}
  if via == "call":
    setdef = member
  with tweaked(sd_name, setdef, realias) as sd:
    if via == "call":
      return sd(*args, **kwargs)
    if via == "item":
      return sd[member](*args, **kwargs)
    return getattr(sd, member)(*args, **kwargs)


OTHER_MEMBER = {   # a member different from the one under test, installed as default while it is called
  "comb": {"fb": "ff", "tau": "ff", "ff": "tau"},
  "lowpass": {"pole": "z_exp", "z": "pole", "pole_exp": "z", "z_exp": "pole_exp"},
  "highpass": {"pole": "z_exp", "z": "pole", "pole_exp": "z", "z_exp": "pole_exp"},
  "resonator": {"poles_exp": "freq_z_exp", "freq_poles_exp": "z_exp", "z_exp": "freq_poles_exp", "freq_z_exp": "poles_exp"},
  "gammatone": {"sampled": "klapuri", "slaney": "sampled", "klapuri": "slaney"},
  "erb": {"gm90": "mg83", "mg83": "gm90"},
}
ALIASES = {
  "comb": {"fb": ["alpha", "fb_alpha", "feedback_alpha"], "tau": ["fb_tau", "feedback_tau"],
           "ff": ["ff_alpha", "feedforward_alpha"]},
  "erb": {"gm90": ["glasberg_moore_90", "glasberg_moore"], "mg83": ["moore_glasberg_83"]},
}
