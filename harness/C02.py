# -*- coding: utf-8 -*-
"""C02 - laziness: event traces (reads at construction, reads per output, end / raise position) of the real
stage constructors against the generator machines of coq/theories/C02."""
import os, json, itertools
from fractions import Fraction
from vlib.framework import Family, ROOT
from vlib import coqlit as L

PID = "C02"
PROP_FILES = ["Prop"]
ALLOWED_AXIOMS = []
EXTRA_COQ_DIRS = ["C08"]
RULE = ("every stage constructor of the table STAGES (one entry = how to build the real stage from counting sources + "
        "the machine that models it), every parameter value in the stated grids (size, hop in 1..6, n in 0..5, orders "
        "0..3, ratios old/new in a small set), sources: endless counter, finite counter of every length 0..8, tripwire "
        "raising when read past the need of the k demands (and one item earlier); every KIND of source object (plain "
        "iterator, generator, object with only __iter__ handing out one shared / a fresh counting iterator - total reads "
        "counted -, Stream, thub); counts given as int / float / Fraction / non-integers that round to them (skip, limit, "
        "resample old/new), Stream-valued parameters (filter coefficients incl. a0, design parameters, modulo_counter, "
        "TableLookup, resample old/new); k demands, k = 0 (also on a tripwire raising at the first read) and k large enough "
        "to pass the end of the finite sources; plus seeded 2- and 3-deep chains of stages.  The interleaved trace of "
        "R(source) / Y / Stop / Raise events seen from outside is compared with the model's trace; non-trivial = at "
        "least two outputs and at least one read.  Distinct = distinct case hash.")
EXHAUSTIVE = {"quick": False, "thorough": False}
trusted_base = [
  "yielded VALUES are erased on both sides (C02 is about read counts; values belong to C01/C03/C04/C08/C09/C20)",
  "a stage is observed through a counting iterator: R = the source delivered an item (or a tripwire source raised "
  "instead), E = the source was asked and found exhausted (not an item read), Y = one item obtained from the stage, "
  "S / X at the first StopIteration / exception; pulling stops there",
  "sequential composition assumes a finished upstream stage answers further demands with 'end' without touching its "
  "source (true for generators; builtin iterators such as map re-ask their source): no generated chain has a consumer "
  "that asks again after the end (zcross and batched, which do, are used as first stage only)",
  "data dependent stages (filter, takewhile, dropwhile, zcross) are run on the raw counting source only, whose item "
  "values are their positions",
  "the tripwire position of a case is computed in Python (py_need); a wrong position only makes a case less sharp, "
  "both sides see the same source",
]
ASSUMPTIONS = ["CPython generator / itertools (map, filter, islice, chain, tee, cycle, takewhile, dropwhile, pairwise, "
               "batched) semantics: a finished generator answers further next() calls without running its body"]

FINDING_EAGER = "C02-itertools-combinatoric-eager"


class Tripwire(Exception):
  pass


class Runaway(Exception):
  pass


class Src(object):
  """Counting source: logs one R per __next__."""
  def __init__(self, log, sid, kind, n, mk):
    self.log, self.sid, self.kind, self.n, self.mk, self.i = log, sid, kind, n, mk, 0

  def __iter__(self):
    return self

  def __next__(self):
    if self.kind == "fin" and self.i >= self.n:
      self.log.append(["E", self.sid])
      raise StopIteration
    self.log.append(["R", self.sid])
    if self.kind == "trip" and self.i >= self.n:
      raise Tripwire()
    if self.i >= 2000:      # an eager consumer of an endless source: stop it instead of filling the memory
      raise Runaway()
    v = self.mk(self.i)
    self.i += 1
    return v


# ----------------------------------------------------------------------------- stage table
# name -> dict(coq = params -> Coq stage term, build = (al, lit, srcs, params) -> iterable,
#              nsrc, tin / tout (item types for chaining: "num", "any", "blk"), first (only as first stage),
#              grid = tier -> list of params, eager)

def _ident(x):
  return x


def _tee_builder(al, lit, s, p):
  n, sched = p
  its = [iter(c) for c in lit.tee(s[0], n)]
  def g():
    for c in sched:
      try:
        yield next(its[c])
      except StopIteration:
        return
  return g()


def _thub_expr(al, lit, s, p):
  h = al.thub(s[0], 3)
  return al.Stream(h) + al.Stream(h) * al.Stream(h)


def _agc(al, src):
  sig = al.thub(src, 2)
  return (1 / ((abs(sig) + 1) - .5 * al.z ** -1))(sig)


def _streamix(al, lit, s, p):
  m = al.Streamix()
  m.add(p[0], s[0])
  return m


def _tostream_gen(al, lit, s, p):
  @al.tostream
  def gen(seq):
    for x in seq:
      yield x
  return gen(s[0])


def _stft(al, lit, s, p):
  size, hop = p
  st = al.stft.base(lambda blk: blk, size=size, hop=hop, transform=None, inverse_transform=None,
                    before=None, after=None, ola=al.overlap_add.list)
  return st(s[0])


def _stft_nohop(al, lit, s, p):
  st = al.stft.base(lambda blk: blk, size=p[0], transform=None, inverse_transform=None,
                    before=None, after=None, ola=al.overlap_add.list)
  return st(s[0])


def mealy(build, tin="num", tout="num", first=False):
  return dict(coq=lambda p: "GMealy", build=build, nsrc=1, tin=tin, tout=tout, first=first,
              grid=lambda tier: [[]], kind="mealy")


def stage(coq, build, nsrc=1, tin="num", tout="num", first=False, grid=None, kind="", eager=False,
          prefix=None, refuse=None):
  """prefix: p -> (src, n): a documented bounded prefix of parameter source src is taken at construction;
  refuse: name of the exception the call must raise instead of building a stage (without touching a source)."""
  return dict(coq=coq, build=build, nsrc=nsrc, tin=tin, tout=tout, first=first,
              grid=grid or (lambda tier: [[]]), kind=kind, eager=eager, prefix=prefix, refuse=refuse)


def ctor_prefix(case):
  """{source: number of items the construction of the case's first stage may take from it}."""
  e = STAGES[case["first"][0]]
  if e.get("prefix"):
    src, n = e["prefix"](case["first"][1])
    return {src: n}
  return {}


def ckind_lit(case):
  e = STAGES[case["first"][0]]
  if e.get("eager"):
    return "CEager"
  if e.get("prefix"):
    src, n = e["prefix"](case["first"][1])
    return "(CPrefix %s %s)" % (L.nat(src), L.nat(n))
  if e.get("refuse"):
    return "(CRefuse %s)" % L.string(e["refuse"])
  return "CLazy"


def nl(xs):
  return L.lst([L.nat(x) for x in xs])


def numval(n, kind, raw=None):
  """The same count n given as int / float / Fraction / bool-free non-integers that round to n (round half even)."""
  if kind == "int":
    return n
  if kind == "float":
    return float(n)
  if kind == "frac":
    return Fraction(n)
  if kind == "f+.4":
    return n + .4
  if kind == "f-.4":
    return n - .4
  if kind == "rawfloat":
    return float(Fraction(raw[0], raw[1]))
  if kind == "bool":
    return True
  if kind == "boolF":
    return False
  raise KeyError(kind)


def pyround(x):
  return max(int(round(x)), 0)


NKINDS = ["int", "float", "frac", "f+.4", "f-.4"]
# [effective n, kind, raw value as (num, den)]: also exact .5 ties (round half even), negative values, bool, n >= 6
SPECIALS = [Fraction(1, 2), Fraction(3, 2), Fraction(5, 2), Fraction(7, 2), Fraction(-1), Fraction(-5, 2)]
N05T = lambda tier: ([[n, kd] for n in list(range(0, 6)) + [7, 9] for kd in NKINDS if not (kd == "f-.4" and n == 0)] +
                     [[pyround(float(v)), "rawfloat", [v.numerator, v.denominator]] for v in SPECIALS] +
                     [[1, "bool"], [0, "boolF"]])
DYADIC = [(1, 1), (1, 2), (2, 1), (3, 2), (5, 2), (1, 4)]
RESAMP_T = lambda tier: ([[o, a, b, "frac"] for o in range(0, 4) for (a, b) in RATIOS] +
                         [[o, a, b, kd] for o in range(0, 4) for (a, b) in DYADIC for kd in ("int", "float")])
RESAMP_TV = lambda tier: [[o, a, b, w] for o in range(0, 4) for (a, b) in (RATIOS[:4] if tier == "quick" else RATIOS)
                          for w in ("old", "new", "both")]


def _resample_tv(al, lit, s, p):
  order, old, new, which = p
  one = al.Stream(s[1]) * 0 + 1       # a Stream of ones fed by the counted source 1
  two = one.copy() if which == "both" else None      # tee first, then use
  o = one * Fraction(old) if which in ("old", "both") else Fraction(old)
  n = two * Fraction(new) if which == "both" else (one * Fraction(new) if which == "new" else Fraction(new))
  return al.resample(s[0], o, n, order=order)


SIZEHOP = lambda tier: [[s, h] for s in range(1, 7) for h in range(1, 7)]
SIZEHOP_LE = lambda tier: [[s, h] for s in range(1, 7) for h in range(1, s + 1)]
N05 = lambda tier: [[n] for n in range(0, 6)]
MODS = lambda tier: [[m, r] for m in range(1, 6) for r in range(0, m)]
RATIOS = [(1, 1), (1, 2), (2, 1), (2, 3), (3, 2), (1, 3), (5, 2)]
RESAMP = lambda tier: [[o, a, b] for o in range(0, 4) for (a, b) in RATIOS]
TEES = lambda tier: [[2, [0, 0, 1, 1, 1, 0, 1]], [2, [0, 1, 0, 1, 0, 1, 0, 1]], [3, [2, 2, 0, 1, 2, 2, 1, 0, 0, 0]],
                     [1, [0, 0, 0, 0]], [3, [1, 1, 1, 1, 1, 1]], [2, [1, 0, 0, 0, 1, 1, 1, 1]]]
Z = lambda al: al.z

STAGES = {
  # ---- one read, one output ------------------------------------------------------------------
  "Stream": mealy(lambda al, lit, s, p: al.Stream(s[0]), "any", "same"),
  "Stream.neg": mealy(lambda al, lit, s, p: -al.Stream(s[0])),
  "Stream.abs": mealy(lambda al, lit, s, p: abs(al.Stream(s[0]))),
  "Stream.add_scalar": mealy(lambda al, lit, s, p: al.Stream(s[0]) + 1),
  "Stream.radd_scalar": mealy(lambda al, lit, s, p: 1 + al.Stream(s[0])),
  "Stream.mul_scalar": mealy(lambda al, lit, s, p: al.Stream(s[0]) * 2),
  "Stream.rsub_scalar": mealy(lambda al, lit, s, p: 5 - al.Stream(s[0])),
  "Stream.lt_scalar": mealy(lambda al, lit, s, p: al.Stream(s[0]) < 3),
  "Stream.radd_iterable": mealy(lambda al, lit, s, p: itertools.count() + al.Stream(s[0])),
  "Stream.map": mealy(lambda al, lit, s, p: al.Stream(s[0]).map(_ident), "any", "same"),
  "Stream.getattr": mealy(lambda al, lit, s, p: al.Stream(s[0]).real),
  "Stream.getattr_call": mealy(lambda al, lit, s, p: al.Stream(s[0]).bit_length(), first=True),
  "Stream.copy": mealy(lambda al, lit, s, p: al.Stream(s[0]).copy(), "any", "same"),
  "thub1": mealy(lambda al, lit, s, p: al.Stream(al.thub(s[0], 1)), "any", "same"),
  "tostream": mealy(_tostream_gen, "any", "same"),
  "it.imap": mealy(lambda al, lit, s, p: lit.imap(_ident, s[0]), "any", "same"),
  "it.accumulate": mealy(lambda al, lit, s, p: lit.accumulate(s[0])),
  "it.accumulate.func": mealy(lambda al, lit, s, p: lit.accumulate.func(s[0])),
  "it.accumulate.z": mealy(lambda al, lit, s, p: lit.accumulate["z"](s[0])),
  "filter.fir": mealy(lambda al, lit, s, p: (1 - Z(al) ** -1)(s[0])),
  "filter.iir": mealy(lambda al, lit, s, p: (1 / (1 - Fraction(1, 2) * Z(al) ** -1))(s[0])),
  "filter.iir2": mealy(lambda al, lit, s, p: ((1 + Z(al) ** -2) / (1 - .5 * Z(al) ** -1 + .25 * Z(al) ** -3))(s[0], zero=0)),
  "filter.zero": mealy(lambda al, lit, s, p: al.ZFilter([0])(s[0])),
  "filter.linear": mealy(lambda al, lit, s, p: al.LinearFilter([1, 2], [1, 0, 3])(s[0])),
  "filter.memory": mealy(lambda al, lit, s, p: (1 / (1 - .5 * Z(al) ** -2))(s[0], memory=[1, 2])),
  "filter.lowpass": mealy(lambda al, lit, s, p: al.lowpass(.1)(s[0])),
  "filter.highpass": mealy(lambda al, lit, s, p: al.highpass.z(.1)(s[0])),
  "filter.resonator": mealy(lambda al, lit, s, p: al.resonator(.2, .05)(s[0])),
  "filter.comb": mealy(lambda al, lit, s, p: al.comb.fb(3, .5)(s[0])),
  "CascadeFilter": mealy(lambda al, lit, s, p: al.CascadeFilter(1 - Z(al) ** -1, 1 + Z(al) ** -2)(s[0])),
  "CascadeFilter3": mealy(lambda al, lit, s, p: al.CascadeFilter(1 - Z(al) ** -1, 1 / (1 + .5 * Z(al) ** -2), Z(al) ** -1)(s[0])),
  "zcross": stage(lambda p: "(GZcross %s)" % L.nat(p[0]), lambda al, lit, s, p: al.zcross(s[0], hysteresis=p[0]),
                  first=True, grid=lambda tier: [[0], [1], [3]], kind="zcross"),
  "zcross.first_sign": mealy(lambda al, lit, s, p: al.zcross(s[0], hysteresis=1, first_sign=1)),
  "clip": mealy(lambda al, lit, s, p: al.clip(s[0], 0, 3)),
  "clip.low_none": mealy(lambda al, lit, s, p: al.clip(s[0], None, 3)),
  "clip.high_none": mealy(lambda al, lit, s, p: al.clip(s[0], 1, None)),
  "clip.none": mealy(lambda al, lit, s, p: al.clip(s[0], None, None), "any", "same"),
  "unwrap": mealy(lambda al, lit, s, p: al.unwrap(s[0])),
  "maverage.deque": mealy(lambda al, lit, s, p: al.maverage.deque(3)(s[0])),
  "maverage.recursive": mealy(lambda al, lit, s, p: al.maverage.recursive(3)(s[0])),
  "maverage.fir": mealy(lambda al, lit, s, p: al.maverage.fir(3)(s[0])),
  "envelope.abs": mealy(lambda al, lit, s, p: al.envelope.abs(s[0])),
  "envelope.squared": mealy(lambda al, lit, s, p: al.envelope.squared(s[0])),
  "envelope.rms": mealy(lambda al, lit, s, p: al.envelope.rms(s[0]), "num", "cplx"),
  "amdf": mealy(lambda al, lit, s, p: al.amdf(2, 3)(s[0])),
  "sinusoid.freq": mealy(lambda al, lit, s, p: al.sinusoid(s[0])),
  "sinusoid.phase": mealy(lambda al, lit, s, p: al.sinusoid(.1, s[0])),
  "modulo_counter.step": mealy(lambda al, lit, s, p: al.modulo_counter(0., 5., s[0])),
  "modulo_counter.start": mealy(lambda al, lit, s, p: al.modulo_counter(s[0], 5., 1.)),
  "modulo_counter.start_step0": mealy(lambda al, lit, s, p: al.modulo_counter(s[0], 5., 0.)),
  "modulo_counter.start_bigstep": mealy(lambda al, lit, s, p: al.modulo_counter(s[0], 5., 4.)),
  "modulo_counter.modulo": mealy(lambda al, lit, s, p: al.modulo_counter(0., al.Stream(s[0]) + 1, 1.), first=True),
  "TableLookup.freq": mealy(lambda al, lit, s, p: al.sin_table(al.Stream(s[0]))),
  "TableLookup.phase": mealy(lambda al, lit, s, p: al.sin_table(.1, al.Stream(s[0]))),
  "elementwise.stream": mealy(lambda al, lit, s, p: al.lazy_math.absolute(al.Stream(s[0]))),
  "elementwise.generator": mealy(lambda al, lit, s, p: al.lazy_math.absolute(x for x in s[0])),
  "elementwise.midi": mealy(lambda al, lit, s, p: al.midi2freq(al.Stream(s[0])), first=True),
  "gammatone.klapuri": mealy(lambda al, lit, s, p: al.gammatone.klapuri(.3, .05)(s[0])),
  "gammatone.slaney": mealy(lambda al, lit, s, p: al.gammatone.slaney(.3, .05)(s[0])),
  "gammatone.sampled": mealy(lambda al, lit, s, p: al.gammatone.sampled(.3, .05)(s[0])),
  "it.starmap": mealy(lambda al, lit, s, p: lit.starmap(_ident, al.Stream(s[0]).map(lambda x: (x,))), "any", "same"),
  "elementwise.sin": mealy(lambda al, lit, s, p: al.lazy_math.sin(al.Stream(s[0])), first=True),
  "ParallelFilter0": stage(lambda p: "(GPar 0)", lambda al, lit, s, p: al.ParallelFilter()(s[0]), kind="par"),
  "ParallelFilter": stage(lambda p: "(GPar %s)" % L.nat(p[0]),
                          lambda al, lit, s, p: al.ParallelFilter(*[1 - Z(al) ** -(j + 1) for j in range(p[0])])(s[0]),
                          grid=lambda tier: [[1], [2], [3], [4]], kind="par"),
  # automatic gain control: a0 derived from a thub of the input itself (one source, two tee copies)
  "filter.gain_from_input": stage(lambda p: "(GPar 2)", lambda al, lit, s, p: _agc(al, s[0]), kind="par"),
  "thub.expr": stage(lambda p: "(GPar 3)", _thub_expr, kind="par"),
  # ---- several sources, one read on each per output -------------------------------------------
  "Stream.add_stream": stage(lambda p: "(GZip %s)" % nl([0, 1]), lambda al, lit, s, p: al.Stream(s[0]) + al.Stream(s[1]),
                             nsrc=2, first=True, kind="zip"),
  "Stream.radd_stream": stage(lambda p: "(GZip %s)" % nl([0, 1]), lambda al, lit, s, p: al.Stream(s[1]).__radd__(s[0]),
                              nsrc=2, first=True, kind="zip"),
  "it.izip": stage(lambda p: "(GZip %s)" % nl([0, 1]), lambda al, lit, s, p: lit.izip(s[0], s[1]), nsrc=2, first=True, tout="tup", kind="zip"),
  "it.izip3": stage(lambda p: "(GZip %s)" % nl([0, 1, 2]), lambda al, lit, s, p: lit.izip(s[0], s[1], s[2]), nsrc=3, first=True, tout="tup", kind="zip"),
  "it.imap2": stage(lambda p: "(GZip %s)" % nl([0, 1]), lambda al, lit, s, p: lit.imap(lambda a, b: a + b, s[0], s[1]),
                    nsrc=2, first=True, kind="zip"),
  "filter.timevar_num": stage(lambda p: "(GZip %s)" % nl([0, 1]), lambda al, lit, s, p: (1 + al.Stream(s[1]) * Z(al) ** -1)(s[0]),
                              nsrc=2, first=True, kind="zip"),
  "filter.timevar_den": stage(lambda p: "(GZip %s)" % nl([0, 1]), lambda al, lit, s, p: (1 / (1 + al.Stream(s[1]) * Z(al) ** -1))(s[0]),
                              nsrc=2, first=True, kind="zip"),
  "filter.timevar_both": stage(lambda p: "(GZip %s)" % nl([0, 1, 2]),
                               lambda al, lit, s, p: ((al.Stream(s[1]) * Z(al) ** -1) / (1 + al.Stream(s[2]) * Z(al) ** -1))(s[0]),
                               nsrc=3, first=True, kind="zip"),
  # variable output gain: the z^0 denominator coefficient a0 is itself a Stream (a counted source)
  "filter.gain_den": stage(lambda p: "(GZip %s)" % nl([0, 1]),
                           lambda al, lit, s, p: (1 / ((al.Stream(s[1]) + 1) - .5 * Z(al) ** -1))(s[0]),
                           nsrc=2, first=True, kind="zip"),
  "filter.gain_den_num": stage(lambda p: "(GZip %s)" % nl([0, 1]),
                               lambda al, lit, s, p: ((1 + Z(al) ** -1) / ((al.Stream(s[1]) + 1) - .5 * Z(al) ** -1))(s[0]),
                               nsrc=2, first=True, kind="zip"),
  "filter.gain_only": stage(lambda p: "(GZip %s)" % nl([0, 1]),
                            lambda al, lit, s, p: (1 / ((al.Stream(s[1]) + 1) + 0 * Z(al) ** -1))(s[0]),
                            nsrc=2, first=True, kind="zip"),
  "filter.gain_den_timevar_num": stage(lambda p: "(GZip %s)" % nl([0, 2, 1]),
                                       lambda al, lit, s, p: ((al.Stream(s[2]) * Z(al) ** -1) /
                                                              ((al.Stream(s[1]) + 1) - .5 * Z(al) ** -1))(s[0]),
                                       nsrc=3, first=True, kind="zip"),
  "filter.lowpass_stream": stage(lambda p: "(GZip %s)" % nl([0, 1]),
                                 lambda al, lit, s, p: al.lowpass(al.Stream(s[1]) * 0 + .1)(s[0]),
                                 nsrc=2, first=True, kind="zip"),
  "filter.resonator_stream": stage(lambda p: "(GZip %s)" % nl([0, 1]),
                                   lambda al, lit, s, p: al.resonator(al.Stream(s[1]) * 0 + .2, .05)(s[0]),
                                   nsrc=2, first=True, kind="zip"),
  "filter.comb_stream": stage(lambda p: "(GZip %s)" % nl([0, 1]),
           lambda al, lit, s, p: al.comb.fb(2, al.Stream(s[1]) * 0 + .5)(s[0]),
           nsrc=2, first=True, kind="zip"),
  "filter.highpass_stream": stage(lambda p: "(GZip %s)" % nl([0, 1]),
           lambda al, lit, s, p: al.highpass(al.Stream(s[1]) * 0 + .1)(s[0]),
           nsrc=2, first=True, kind="zip"),
  "CascadeFilter.timevar": stage(lambda p: "(GZip %s)" % nl([0, 1]),
           lambda al, lit, s, p: al.CascadeFilter(1 - Z(al) ** -1, 1 + al.Stream(s[1]) * Z(al) ** -1)(s[0]),
           nsrc=2, first=True, kind="zip"),
  "ParallelFilter.timevar": stage(lambda p: "(GZip %s)" % nl([0, 1]),
           lambda al, lit, s, p: al.ParallelFilter(1 - Z(al) ** -1, 1 + al.Stream(s[1]) * Z(al) ** -1)(s[0]),
           nsrc=2, first=True, kind="zip"),
  "ParallelFilter.timevar_first": stage(lambda p: "(GZip %s)" % nl([0, 1]),
           lambda al, lit, s, p: al.ParallelFilter(1 + al.Stream(s[1]) * Z(al) ** -1, 1 - Z(al) ** -1)(s[0]),
           nsrc=2, first=True, kind="zip"),
  "modulo_counter.start_step": stage(lambda p: "(GZip %s)" % nl([0, 1]), lambda al, lit, s, p: al.modulo_counter(s[0], 7., s[1]),
                                     nsrc=2, first=True, kind="zip"),
  "modulo_counter.all": stage(lambda p: "(GZip %s)" % nl([0, 1, 2]),
                              lambda al, lit, s, p: al.modulo_counter(s[0], al.Stream(s[1]) + 1, s[2]),
                              nsrc=3, first=True, kind="zip"),
  "sinusoid.both": stage(lambda p: "(GZip %s)" % nl([1, 0]), lambda al, lit, s, p: al.sinusoid(s[0], s[1]), nsrc=2, first=True, kind="zip"),
  "TableLookup.both": stage(lambda p: "(GZip %s)" % nl([1, 0]), lambda al, lit, s, p: al.sin_table(al.Stream(s[0]), al.Stream(s[1])),
                            nsrc=2, first=True, kind="zip"),
  # ---- chains of sources -----------------------------------------------------------------------
  "Stream.chain": stage(lambda p: "(GChain %s)" % nl([0, 1]), lambda al, lit, s, p: al.Stream(s[0], s[1]), nsrc=2, first=True, kind="chain"),
  "Stream.append": stage(lambda p: "(GChain %s)" % nl([0, 1]), lambda al, lit, s, p: al.Stream(s[0]).append(s[1]), nsrc=2, first=True, kind="chain"),
  "it.chain": stage(lambda p: "(GChain %s)" % nl([0, 1, 2]), lambda al, lit, s, p: lit.chain(s[0], s[1], s[2]), nsrc=3, first=True, kind="chain"),
  "it.chain.star": stage(lambda p: "(GChain %s)" % nl([0, 1]), lambda al, lit, s, p: lit.chain.star([s[0], s[1]]), nsrc=2, first=True, kind="chain"),
  # ---- data dependent / counting stages ----------------------------------------------------------
  "Stream.filter": stage(lambda p: "(GFilter %s %s)" % (L.nat(p[0]), L.nat(p[1])),
                         lambda al, lit, s, p: al.Stream(s[0]).filter(lambda x: x % p[0] == p[1]), first=True, grid=MODS, kind="filter"),
  "it.ifilter": stage(lambda p: "(GFilter %s %s)" % (L.nat(p[0]), L.nat(p[1])),
                      lambda al, lit, s, p: lit.ifilter(lambda x: x % p[0] == p[1], s[0]), first=True, grid=MODS, kind="filter"),
  "it.ifilterfalse": stage(lambda p: "(GFilter %s %s)" % (L.nat(p[0]), L.nat(p[1])),
                           lambda al, lit, s, p: lit.ifilterfalse(lambda x: x % p[0] != p[1], s[0]), first=True, grid=MODS, kind="filter"),
  "Stream.skip": stage(lambda p: "(GSkip %s)" % L.nat(p[0]), lambda al, lit, s, p: al.Stream(s[0]).skip(numval(*p)),
                       tin="any", tout="same", grid=N05T, kind="skip"),
  "it.dropwhile": stage(lambda p: "(GSkip %s)" % L.nat(p[0]), lambda al, lit, s, p: lit.dropwhile(lambda x: x < p[0], s[0]),
                        first=True, grid=N05, kind="skip"),
  "Stream.limit": stage(lambda p: "(GLimit %s)" % L.nat(p[0]), lambda al, lit, s, p: al.Stream(s[0]).limit(numval(*p)),
                        tin="any", tout="same", grid=N05T, kind="limit"),
  "it.islice": stage(lambda p: "(GLimit %s)" % L.nat(p[0]), lambda al, lit, s, p: lit.islice(s[0], p[0]),
                     tin="any", tout="same", grid=N05, kind="limit"),
  "it.takewhile": stage(lambda p: "(GTakeWhile %s)" % L.nat(p[0]), lambda al, lit, s, p: lit.takewhile(lambda x: x < p[0], s[0]),
                        first=True, grid=N05, kind="takewhile"),
  "zero_pad": stage(lambda p: "(GPad %s %s)" % (L.nat(p[0]), L.nat(p[1])),
                    lambda al, lit, s, p: al.zero_pad(s[0], p[0], p[1]),
                    grid=lambda tier: [[l, r] for l in range(0, 4) for r in range(0, 3)], kind="pad"),
  "Streamix": stage(lambda p: "(GPad %s 0)" % L.nat(p[0]), _streamix, grid=lambda tier: [[0], [1], [2], [5]], kind="pad"),
  "it.cycle": stage(lambda p: "GCycle", lambda al, lit, s, p: lit.cycle(s[0]), tin="any", tout="same", kind="cycle"),
  # ---- blocks -------------------------------------------------------------------------------------
  "blocks": stage(lambda p: "(GBlocks %s %s)" % (L.nat(p[0]), L.nat(p[1])),
                  lambda al, lit, s, p: al.blocks(s[0], p[0], p[1]), tin="any", tout="blk", grid=SIZEHOP, kind="blocks"),
  "Stream.blocks": stage(lambda p: "(GBlocks %s %s)" % (L.nat(p[0]), L.nat(p[1])),
                         lambda al, lit, s, p: al.Stream(s[0]).blocks(size=p[0], hop=p[1]), tin="any", tout="blk", grid=SIZEHOP, kind="blocks"),
  "blocks.nohop": stage(lambda p: "(GBlocks %s %s)" % (L.nat(p[0]), L.nat(p[0])),
                        lambda al, lit, s, p: al.blocks(s[0], p[0]), tin="any", tout="blk",
                        grid=lambda tier: [[n] for n in range(1, 7)], kind="blocks"),
  "chunks.struct": stage(lambda p: "(GBlocks %s %s)" % (L.nat(p[0]), L.nat(p[0])),
                         lambda al, lit, s, p: al.chunks.struct(s[0], size=p[0], dfmt="d"),
                         tout="bytes", grid=lambda tier: [[n] for n in range(1, 7)], kind="blocks"),
  "chunks.array": stage(lambda p: "(GBlocks %s %s)" % (L.nat(p[0]), L.nat(p[0])),
                        lambda al, lit, s, p: al.chunks.array(s[0], size=p[0], dfmt="d"),
                        tout="bytes", grid=lambda tier: [[n] for n in range(1, 7)], kind="blocks"),
  "it.batched": stage(lambda p: "(GBatched %s)" % L.nat(p[0]), lambda al, lit, s, p: lit.batched(s[0], p[0]),
                      first=True, tout="other", grid=lambda tier: [[n] for n in range(1, 7)], kind="batched"),
  "it.pairwise": stage(lambda p: "(GBlocks 2 1)", lambda al, lit, s, p: lit.pairwise(s[0]), tin="any", tout="blk", kind="blocks"),
  "it.tee": stage(lambda p: "(GTee %s %s)" % (L.nat(p[0]), nl(p[1])), _tee_builder, first=True, grid=TEES, kind="tee"),
  # ---- overlap-add, STFT, resample ------------------------------------------------------------------
  "overlap_add.list": stage(lambda p: "(GOla %s %s false)" % (L.nat(p[0]), L.nat(p[1])),
                            lambda al, lit, s, p: al.overlap_add.list(s[0], size=p[0], hop=p[1]),
                            tin="blk", grid=SIZEHOP_LE, kind="ola"),
  "overlap_add.list.autosize": stage(lambda p: "(GOla %s %s true)" % (L.nat(p[0]), L.nat(p[1])),
                                     lambda al, lit, s, p: al.overlap_add.list(s[0], hop=p[1]),
                                     tin="blk", grid=SIZEHOP_LE, kind="ola"),
  "overlap_add.list.wnd": stage(lambda p: "(GOla %s %s false)" % (L.nat(p[0]), L.nat(p[1])),
                                lambda al, lit, s, p: al.overlap_add.list(s[0], size=p[0], hop=p[1], wnd=[1.] * p[0], normalize=False),
                                tin="blk", grid=SIZEHOP_LE, kind="ola"),
  "stft": stage(lambda p: "STFT", _stft, grid=SIZEHOP_LE, kind="stft"),
  "stft.nohop": stage(lambda p: "STFT", _stft_nohop, grid=lambda tier: [[n, n] for n in range(1, 7)], kind="stft"),
  "resample": stage(lambda p: "(GResample %s %s %s)" % (L.nat(p[0]), L.nat(p[1]), L.nat(p[2])),
                    lambda al, lit, s, p: al.resample(s[0], numval(p[1], p[3]), numval(p[2], p[3]), order=p[0]),
                    grid=RESAMP_T, kind="resample"),
  "resample.step_stream": stage(lambda p: "(GResampleTV %s %s %s)" % (L.nat(p[0]), L.nat(p[1]), L.nat(p[2])),
                                _resample_tv, nsrc=2, first=True, grid=RESAMP_TV, kind="resample_tv"),
  # ---- secondary parameter sources ------------------------------------------------------------------------
  "attack.sustain": stage(lambda p: "(GAttack %s)" % L.nat(int(p[0] + .5) + int(p[1] + .5)),
                          lambda al, lit, s, p: al.attack(p[0], p[1], s[0]),
                          grid=lambda tier: [[1, 1], [2, 1.6], [3.4, 2], [.6, .7], [6, 5]], kind="attack"),
  "filter.memory_source": stage(lambda p: "GMealy",
                                lambda al, lit, s, p: (al.ZFilter([1, 2]) if p[0] == 0 else
                                                       1 / (1 - .5 * Z(al) ** -p[0]))(s[0], memory=s[1]),
                                nsrc=2, first=True, grid=lambda tier: [[0], [1], [2], [3], [6]], kind="mealy_mem",
                                prefix=lambda p: (1, p[0] + 1)),
  "filter.memory_source_fir": stage(lambda p: "GMealy",
                                    lambda al, lit, s, p: (1 + Z(al) ** -2)(s[0], memory=s[1]),
                                    nsrc=2, first=True, kind="mealy_mem", prefix=lambda p: (1, 1)),
  "envelope.abs.cutoff_stream": stage(lambda p: "(GZip %s)" % nl([0, 1]),
                                      lambda al, lit, s, p: al.envelope.abs(s[0], cutoff=al.Stream(s[1]) * 0 + .1),
                                      nsrc=2, first=True, kind="zip"),
  "envelope.squared.cutoff_stream": stage(lambda p: "(GZip %s)" % nl([0, 1]),
                                          lambda al, lit, s, p: al.envelope.squared(s[0], cutoff=al.Stream(s[1]) * 0 + .1),
                                          nsrc=2, first=True, kind="zip"),
  "envelope.rms.cutoff_stream": stage(lambda p: "(GZip %s)" % nl([0, 1]),
                                      lambda al, lit, s, p: al.envelope.rms(s[0], cutoff=al.Stream(s[1]) * 0 + .1),
                                      nsrc=2, first=True, tout="cplx", kind="zip"),
  # ---- default strategies and the StreamTeeHub methods ----------------------------------------------------------
  "envelope.default": mealy(lambda al, lit, s, p: al.envelope(s[0]), "num", "cplx"),
  "maverage.default": mealy(lambda al, lit, s, p: al.maverage(3)(s[0])),
  "comb.default": mealy(lambda al, lit, s, p: al.comb(3, .5)(s[0])),
  "thub.map": mealy(lambda al, lit, s, p: al.thub(s[0], 1).map(_ident), "any", "same"),
  "thub.copy": mealy(lambda al, lit, s, p: al.thub(s[0], 1).copy(), "any", "same"),
  "thub.skip": stage(lambda p: "(GSkip %s)" % L.nat(p[0]), lambda al, lit, s, p: al.thub(s[0], 1).skip(p[0]),
                     tin="any", tout="same", grid=N05, kind="skip"),
  "thub.limit": stage(lambda p: "(GLimit %s)" % L.nat(p[0]), lambda al, lit, s, p: al.thub(s[0], 1).limit(p[0]),
                      tin="any", tout="same", grid=N05, kind="limit"),
  "thub.filter": stage(lambda p: "(GFilter %s %s)" % (L.nat(p[0]), L.nat(p[1])),
                       lambda al, lit, s, p: al.thub(s[0], 1).filter(lambda x: x % p[0] == p[1]), first=True, grid=MODS, kind="filter"),
  "thub.append": stage(lambda p: "(GChain %s)" % nl([0, 1]), lambda al, lit, s, p: al.thub(s[0], 1).append(s[1]),
                       nsrc=2, first=True, kind="chain"),
  "thub.blocks": stage(lambda p: "(GBlocks %s %s)" % (L.nat(p[0]), L.nat(p[1])),
                       lambda al, lit, s, p: al.thub(s[0], 1).blocks(size=p[0], hop=p[1]), tin="any", tout="blk",
                       grid=lambda tier: [[2, 2], [3, 1], [2, 5]], kind="blocks"),
  # ---- calls that must be refused WITHOUT touching the source --------------------------------------------------------
  "refuse.stft_hop_gt_size": stage(lambda p: '(GRefuse "ValueError")', lambda al, lit, s, p: _stft(al, lit, s, [2, 3]),
                                   first=True, kind="refuse", refuse="ValueError"),
  "refuse.clip_high_lt_low": stage(lambda p: '(GRefuse "ValueError")', lambda al, lit, s, p: al.clip(s[0], 2, 1),
                                   first=True, kind="refuse", refuse="ValueError"),
  "refuse.noncausal_filter": stage(lambda p: '(GRefuse "ValueError")', lambda al, lit, s, p: (Z(al) ** 1)(s[0]),
                                   first=True, kind="refuse", refuse="ValueError"),
  "refuse.streamix_negative_delta": stage(lambda p: '(GRefuse "ValueError")', lambda al, lit, s, p: _streamix(al, lit, s, [-1]),
                                          first=True, kind="refuse", refuse="ValueError"),
  "refuse.stream_mixed_args": stage(lambda p: '(GRefuse "TypeError")', lambda al, lit, s, p: al.Stream(s[0], 3),
                                    first=True, kind="refuse", refuse="TypeError"),
  # ---- combinatoric itertools wrappers: their C constructors drain the input ---------------------------
  "it.product": stage(lambda p: "GMealy", lambda al, lit, s, p: lit.product(s[0]), first=True, kind="eager", eager=True),
  "it.permutations": stage(lambda p: "GMealy", lambda al, lit, s, p: lit.permutations(s[0], 2), first=True, kind="eager", eager=True),
  "it.combinations": stage(lambda p: "GMealy", lambda al, lit, s, p: lit.combinations(s[0], 2), first=True, kind="eager", eager=True),
  "it.combinations_with_replacement": stage(lambda p: "GMealy", lambda al, lit, s, p: lit.combinations_with_replacement(s[0], 2),
                                            first=True, kind="eager", eager=True),
}


def expand(name, p):
  """A table entry as the list of (descriptor, params) primitive model stages (the STFT wrapper is three)."""
  if STAGES[name]["kind"] == "stft":
    return [("blocks", [p[0], p[1]]), ("mealy", []), ("ola", [p[0], p[1], False])]
  e = STAGES[name]
  k = e["kind"]
  if k in ("mealy", "mealy_mem", "refuse"):
    return [("mealy", [])]
  if k == "attack":
    return [("attack", [int(p[0] + .5) + int(p[1] + .5)])]
  if k == "par":
    return [("par", [])]
  if k == "zip":
    return [("zip", e["coq"](p))]
  if k == "chain":
    return [("chain", e["coq"](p))]
  if k == "filter":
    return [("filter", [p[0], p[1]])]
  if k == "skip":
    return [("skip", [p[0]])]
  if k == "limit":
    return [("limit", [p[0]])]
  if k == "takewhile":
    return [("mealy", [])]
  if k == "pad":
    return [("pad", [p[0]])]
  if k == "cycle" or k == "zcross":
    return [("mealy", [])]
  if k == "batched":
    return [("blocks", [p[0], p[0]])]
  if k == "blocks":
    if name == "it.pairwise":
      return [("blocks", [2, 1])]
    if len(p) == 1:
      return [("blocks", [p[0], p[0]])]
    return [("blocks", [p[0], p[1]])]
  if k == "tee":
    return [("tee", p)]
  if k == "ola":
    return [("ola", [p[0], p[1], False])]
  if k == "resample":
    return [("resample", p[:3])]
  if k == "resample_tv":
    return [("resample_tv", p[:3])]
  if k == "eager":
    return [("mealy", [])]
  raise KeyError(k)


def coq_stages(name, p):
  if STAGES[name]["kind"] == "stft":
    return ["(GBlocks %s %s)" % (L.nat(p[0]), L.nat(p[1])), "GMealy", "(GOla %s %s false)" % (L.nat(p[0]), L.nat(p[1]))]
  return [STAGES[name]["coq"](p)]


# ----------------------------------------------------------------------------- need (tripwire placement only)
def prim_need(d, i, k):
  kind, p = d
  if k == 0:
    return 0
  if kind in ("mealy", "par"):
    return k if i == 0 else 0
  if kind == "zip" or kind == "chain":
    return k if ("%d%%nat" % i) in p else 0
  if kind == "filter":
    return p[1] + (k - 1) * p[0] + 1 if i == 0 else 0
  if kind == "attack":
    return 1 + max(0, k - p[0])
  if kind == "skip":
    return p[0] + k
  if kind == "limit":
    return min(p[0], k)
  if kind == "pad":
    return max(0, k - p[0])
  if kind == "blocks":
    return (k - 1) * p[1] + p[0]
  if kind == "tee":
    n, sched = p
    return max(sched[:k].count(c) for c in range(n))
  if kind == "ola":
    return (k - 1) // p[1] + 1
  if kind == "resample_tv" and i == 1:
    return k - 1
  if kind == "resample_tv" and i > 1:
    return 0
  if kind in ("resample", "resample_tv"):
    order, old, new = p
    n0 = (order + 2) // 2
    idx0 = 2 * new * ((order + 1) // 2)
    thr = new * (order + 1)
    e = -((thr - idx0 - (k - 1) * 2 * old) // (2 * new))
    return n0 + max(0, e)
  raise KeyError(kind)


def py_need(case, i, k):
  prims = []
  for name, p in [case["first"]] + case["rest"]:
    prims += expand(name, p)
  for d in reversed(prims[1:]):
    k = prim_need(d, 0, k)
  return prim_need(prims[0], i, k)


# ----------------------------------------------------------------------------- source kinds
class SharedIterable(object):
  """Object with only __iter__: always hands out the same counting iterator."""
  def __init__(self, it):
    self._it = it

  def __iter__(self):
    return self._it


class FreshIterable(object):
  """Object with only __iter__: a fresh counting iterator (from item 0) on every iter() call; all of them log
  into the same trace under the same source number, so the TOTAL number of reads is what is counted."""
  def __init__(self, *args):
    self._args = args

  def __iter__(self):
    return Src(*self._args)


WRAPS = ["iter", "gen", "shared", "fresh", "stream", "thub"]


def wrap_source(al, wrap, log, j, kd, n, mk):
  if wrap == "fresh":
    return FreshIterable(log, j, kd, n, mk)
  src = Src(log, j, kd, n, mk)
  if wrap == "iter":
    return src
  if wrap == "gen":
    return (x for x in src)
  if wrap == "shared":
    return SharedIterable(src)
  if wrap == "stream":
    return al.Stream(src)
  if wrap == "thub":
    return al.thub(src, 1)
  raise KeyError(wrap)


# ----------------------------------------------------------------------------- runner
def blk_size_of(case):
  """Size of the blocks a raw source must deliver (first stage consumes blocks)."""
  name, p = case["first"]
  if STAGES[name]["tin"] == "blk":
    return p[0]
  return None


def run_lazy(c):
  import audiolazy as al
  from audiolazy import lazy_itertools as lit
  log = []
  bs = blk_size_of(c)
  mk = (lambda i: [i] * bs) if bs else (lambda i: i)
  wrap = c.get("wrap", "iter")
  try:
    srcs = [wrap_source(al, wrap, log, j, kd, n, mk) for j, (kd, n) in enumerate(c["srcs"])]
    name, p = c["first"]
    obj = STAGES[name]["build"](al, lit, srcs, p)
    for name, p in c["rest"]:
      obj = STAGES[name]["build"](al, lit, [obj], p)
    itr = iter(obj)
  except Exception as e:
    log.append(["X", type(e).__name__])
    return {"ctor": log, "pull": []}
  ctor = list(log)
  del log[:]
  for _ in range(c["k"]):
    try:
      next(itr)
      log.append(["Y"])
    except StopIteration:
      log.append(["S"])
      break
    except Exception as e:
      log.append(["X", type(e).__name__])
      break
  return {"ctor": ctor, "pull": list(log)}


def ev_lit(e):
  if e[0] == "R":
    return "ER %s" % L.nat(e[1])
  if e[0] == "E":
    return "EE %s" % L.nat(e[1])
  if e[0] == "Y":
    return "EY"
  if e[0] == "S":
    return "ES"
  return "EX %s" % L.string(e[1])


def srcd_lit(s):
  kd, n = s
  if kd == "inf":
    return "SInf"
  return "(%s %s)" % ("SFin" if kd == "fin" else "STrip", L.nat(n))


def lit_lazy(c, o):
  if "ctor" not in o:
    o = {"ctor": [["X", o.get("raise", "Harness")]], "pull": []}
  sts = []
  for name, p in [c["first"]] + c["rest"]:
    sts += coq_stages(name, p)
  return "(LC %s %s %s %s %s %s %s)" % (
    ckind_lit(c), sts[0], L.lst(sts[1:]), L.lst([srcd_lit(s) for s in c["srcs"]]), L.nat(c["k"]),
    L.lst([ev_lit(e) for e in o["ctor"]]), L.lst([ev_lit(e) for e in o["pull"]]))


def nontrivial(c, o):
  if "pull" not in o:
    return False
  ny = sum(1 for e in o["pull"] if e[0] == "Y")
  nr = sum(1 for e in o["pull"] if e[0] == "R")
  return ny >= 2 and nr >= 1


def eager_registered():
  """The eager combinatoric wrappers are a finding against the property text (they drain their input at
  construction).  Their cases are generated once the finding id is listed in known_findings.json (or when
  C02_EAGER=1), so that an unregistered finding does not turn every run into an alarm."""
  if os.environ.get("C02_EAGER"):
    return True
  try:
    d = json.load(open(os.path.join(ROOT, "known_findings.json")))
    return any(e.get("id") == FINDING_EAGER for e in d.get("findings", []))
  except Exception:
    return False


def known(c, o):
  if STAGES[c["first"][0]].get("eager"):
    return FINDING_EAGER
  return None


# ----------------------------------------------------------------------------- generators
def source_sets(case, tier, kmax):
  """Source configurations for one (pipeline, k): endless, every finite length, tripwires."""
  n = STAGES[case["first"][0]]["nsrc"]
  pre = ctor_prefix(case)
  if kmax == 0:   # construction only: endless sources, and tripwires that raise on the very first read
    return [([["inf", 0]] * n, "src:endless"), ([["trip", pre.get(i, 0)] for i in range(n)], "src:tripwire")]
  res = []
  res.append(([["inf", 0]] * n, "src:endless"))
  for ln in range(0, 9):
    if n == 1:
      res.append(([["fin", ln]], "src:finite"))
    else:
      # the other sources: longer, equal, shorter (rotating)
      for var in range(3):
        ss = []
        for j in range(n):
          ss.append(["fin", max(0, ln + ((var + j) % 3) - 1)] if j else ["fin", ln])
        res.append((ss, "src:finite"))
  # tripwires at the need of the kmax demands, and one item before it
  need = [py_need(case, i, kmax) + pre.get(i, 0) for i in range(n)]
  res.append(([["trip", min(need[i], 60)] for i in range(n)], "src:tripwire"))
  if need[0] > 0:
    res.append(([["trip", min(need[0] - 1, 60)]] + [["inf", 0]] * (n - 1), "src:tripwire-early"))
  return res


def cases_for(first, rest, tier, rng, ks, tags, full=True):
  base = {"first": first, "rest": rest}
  for k in ks:
    sets = source_sets(base, tier, k)
    if not full and k > 0:
      pick = [sets[0], sets[1 + rng.randrange(0, len(sets) - 3)], sets[-2] if sets[-2][1].startswith("src:trip") else sets[-1], sets[-1]]
      sets = pick
    for srcs, stag in sets:
      yield {"first": first, "rest": rest, "srcs": srcs, "k": k, "tags": tags + [stag, "k=%d" % k]}


def chainable(tier):
  res = []
  for name, e in STAGES.items():
    if e["first"] or e["nsrc"] != 1 or e.get("eager"):
      continue
    res.append(name)
  return sorted(res)


def out_type(name, tin):
  t = STAGES[name]["tout"]
  if t == "blk" and tin != "num":
    return "other"          # blocks of non-numbers cannot be overlap-added
  return tin if t == "same" else t


def gen_chain(rng, depth, tier):
  """A random well-typed chain: first stage on counting sources, then single-input stages."""
  firsts = sorted(n for n, e in STAGES.items() if not e.get("eager") and e["kind"] not in ("tee", "refuse") and e["tin"] != "blk")
  names = chainable(tier)
  for _ in range(200):
    f = rng.choice(firsts)
    fp = rng.choice(STAGES[f]["grid"](tier))
    t = out_type(f, "num")
    bsize = (2 if f == "it.pairwise" else fp[0]) if t == "blk" else None
    rest = []
    ok = True
    for _d in range(depth - 1):
      cands = []
      for n in names:
        tin = STAGES[n]["tin"]
        if tin == "any" or tin == t:
          cands.append(n)
      if not cands:
        ok = False
        break
      n = rng.choice(cands)
      grid = STAGES[n]["grid"](tier)
      if STAGES[n]["tin"] == "blk":
        grid = [p for p in grid if p[0] == bsize]      # overlap-add of blocks of the size being produced
        if not grid:
          ok = False
          break
      p = rng.choice(grid)
      rest.append([n, p])
      t = out_type(n, t)
      if t == "blk" and STAGES[n]["tout"] == "blk":
        bsize = 2 if n == "it.pairwise" else p[0]
    if ok:
      return [f, fp], rest
  raise RuntimeError("no chain")


def wraps_for(name):
  """Source kinds (other than the plain iterator) a stage is exercised with.  Excluded, with the reason:
  it.tee on a non-iterator iterable returns n times the same object by its documented contract (no tee at all);
  zcross / batched ask an exhausted source twice, which a generator-wrapped source hides from the counter."""
  kind = STAGES[name]["kind"]
  ws = [w for w in WRAPS if w != "iter"]
  if kind == "tee":
    ws = [w for w in ws if w not in ("fresh", "shared")]
  if kind in ("zcross", "batched"):
    ws = [w for w in ws if w != "gen"]
  return ws


def gen_lazy(tier, rng):
  quick = tier == "quick"
  # 1. every stage of the table, every parameter, every source
  for name in sorted(STAGES):
    e = STAGES[name]
    if e.get("eager"):
      continue
    grid = e["grid"](tier)
    for gi, p in enumerate(grid):
      if e["kind"] == "tee":
        ks = [len(p[1])]
      elif e["kind"] == "refuse":
        ks = [0]
      elif e["kind"] in ("blocks",):
        ks = [0, 4]
      elif e["kind"] in ("ola", "stft", "resample", "pad", "cycle"):
        ks = [0, 11]
      else:
        ks = [0, 10]
      if e["tin"] == "blk" and name != "stft":
        pass
      full = (not quick) or len(grid) <= 8 or (gi % 5 == 0)
      for c in cases_for([name, p], [], tier, rng, ks, ["stage:" + name, "kind:" + e["kind"], "depth=1"], full=full):
        yield c
      # the same stage on every KIND of source object (generator, object with only __iter__ handing out one shared /
      # a fresh counting iterator, Stream, thub): construction on a tripwire, then endless / finite / tripwire
      if gi == 0 or (not quick and gi % 3 == 0) or (quick and gi % 7 == 0):
        for w in wraps_for(name):
          base = {"first": [name, p], "rest": []}
          kk = ks[-1]
          n = e["nsrc"]
          pre = ctor_prefix(base)
          need = [py_need(base, i, kk) + pre.get(i, 0) for i in range(n)]
          confs = [(0, [["trip", pre.get(i, 0)] for i in range(n)], "src:tripwire"), (kk, [["inf", 0]] * n, "src:endless"),
                   (kk, [["fin", 3]] * n, "src:finite"), (kk, [["trip", min(need[i], 60)] for i in range(n)], "src:tripwire")]
          for k, srcs, stag in confs:
            yield {"first": [name, p], "rest": [], "srcs": srcs, "k": k, "wrap": w,
                   "tags": ["stage:" + name, "kind:" + e["kind"], "depth=1", "wrap:" + w, stag, "k=%d" % k]}
  # 2. chains
  nchains = 300 if quick else 4000
  for j in range(nchains):
    depth = 2 if j % 2 == 0 else 3
    first, rest = gen_chain(rng, depth, tier)
    k = rng.choice([3, 6, 9])
    w = rng.choice(wraps_for(first[0]) + ["iter"])
    for c in cases_for(first, rest, tier, rng, [k], ["chain", "depth=%d" % depth, "wrap:" + w], full=False):
      c["wrap"] = w
      yield c


def gen_eager(tier, rng):
  if not eager_registered():
    return
  for name in sorted(STAGES):
    if STAGES[name].get("eager"):
      for ln in (0, 1, 3):
        yield {"first": [name, []], "rest": [], "srcs": [["fin", ln]], "k": 0, "tags": ["eager", "stage:" + name]}
      yield {"first": [name, []], "rest": [], "srcs": [["trip", 4]], "k": 0, "tags": ["eager", "stage:" + name]}


IMPORTS = "From AL Require Import C02.Machine C02.Spec C02.Model C02.Check."
FAMILIES = {
  "lazy": Family("lazy", IMPORTS, "lcase", "corr_lazy", "holds_lazy", gen_lazy, run_lazy, lit_lazy, nontrivial, known,
                 timeout=10),
  "eager": Family("eager", IMPORTS, "lcase", "corr_lazy", "holds_lazy", gen_eager, run_lazy, lit_lazy,
                  lambda c, o: True, known, timeout=10),
}
