# -*- coding: utf-8 -*-
"""Exact complex rational (Gaussian rational) for the C04 harness: absorbs int / bool / float / complex / Fraction /
ExactQ operands exactly; its repr ``_C4(n1,d1,n2,d2)`` round-trips through the filter code generator (``_C4`` is
injected into builtins).  Same idea as harness/C12_util.CQ, kept separate so that C04 does not depend on C12."""
from __future__ import division
import builtins
from fractions import Fraction
from vlib.exactq import ExactQ


def parts(x):
  """(re, im) as Fractions, or None when x is not a finite number we absorb"""
  if isinstance(x, CQ):
    return x.re, x.im
  if isinstance(x, ExactQ):
    return x.frac, Fraction(0)
  if isinstance(x, bool):
    return Fraction(int(x)), Fraction(0)
  if isinstance(x, (int, Fraction)):
    return Fraction(x), Fraction(0)
  if isinstance(x, float):
    if x != x or x in (float("inf"), float("-inf")):
      return None
    return Fraction(x), Fraction(0)
  if isinstance(x, complex):
    if x != x or abs(x.real) == float("inf") or abs(x.imag) == float("inf"):
      return None
    return Fraction(x.real), Fraction(x.imag)
  return None


class CQ(object):
  __slots__ = ("re", "im")

  def __init__(self, re=0, im=0):
    self.re, self.im = Fraction(re), Fraction(im)

  def __repr__(self):
    return "_C4(%d,%d,%d,%d)" % (self.re.numerator, self.re.denominator, self.im.numerator, self.im.denominator)
  __str__ = __repr__

  def __format__(self, spec):
    return repr(self)

  def __hash__(self):
    return hash((self.re, self.im))

  def __bool__(self):
    return self.re != 0 or self.im != 0

  def _bin(self, other, f, rev=False):
    o = parts(other)
    if o is None:
      return NotImplemented
    a, b = (self.re, self.im), o
    if rev:
      a, b = b, a
    return CQ(*f(a, b))

  @staticmethod
  def _div(a, b):
    n = b[0] * b[0] + b[1] * b[1]
    if n == 0:
      raise ZeroDivisionError("complex rational division by zero")
    return (a[0] * b[0] + a[1] * b[1]) / n, (a[1] * b[0] - a[0] * b[1]) / n

  _add = staticmethod(lambda a, b: (a[0] + b[0], a[1] + b[1]))
  _sub = staticmethod(lambda a, b: (a[0] - b[0], a[1] - b[1]))
  _mul = staticmethod(lambda a, b: (a[0] * b[0] - a[1] * b[1], a[0] * b[1] + a[1] * b[0]))

  def __add__(self, o): return self._bin(o, CQ._add)
  def __radd__(self, o): return self._bin(o, CQ._add, True)
  def __sub__(self, o): return self._bin(o, CQ._sub)
  def __rsub__(self, o): return self._bin(o, CQ._sub, True)
  def __mul__(self, o): return self._bin(o, CQ._mul)
  def __rmul__(self, o): return self._bin(o, CQ._mul, True)
  def __truediv__(self, o): return self._bin(o, CQ._div)
  def __rtruediv__(self, o): return self._bin(o, CQ._div, True)
  def __neg__(self): return CQ(-self.re, -self.im)
  def __pos__(self): return self

  def __abs__(self):
    """exact when the modulus is rational (e.g. the 3-4-5 points of the unit circle), else a float"""
    import math
    n = self.re * self.re + self.im * self.im
    a, b = math.isqrt(n.numerator), math.isqrt(n.denominator)
    if a * a == n.numerator and b * b == n.denominator:
      return ExactQ(Fraction(a, b))
    return math.sqrt(n)

  def __eq__(self, o):
    p = parts(o)
    return p is not None and (self.re, self.im) == p

  def __ne__(self, o):
    return not self.__eq__(o)

  @property
  def real(self): return ExactQ(self.re)
  @property
  def imag(self): return ExactQ(self.im)
  def conjugate(self): return CQ(self.re, -self.im)


def _C4(n1, d1, n2, d2):
  return CQ(Fraction(n1, d1), Fraction(n2, d2))


builtins._C4 = _C4
