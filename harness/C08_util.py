# -*- coding: utf-8 -*-
"""C08 round 2 helpers: typed item encoding, input kinds, entry points / argument styles, live histories."""
import collections, itertools, array
from fractions import Fraction
from vlib import coqlit as L


# ---------------------------------------------------------------- typed values (0 / 0.0 / -0.0 / False differ)
class Obj(object):
  """Marker used by the generators: the object of that name in the object table (given and compared by IDENTITY)."""
  def __init__(self, name):
    self.name = name


class CallObj(object):
  def __call__(self, *a):
    return "called"


def _genfunc():
  yield "from-genfunc"


_TABLE = {}
OBJ_NAMES = ["abs", "float", "list", "lambda", "bound", "partial", "callobj", "genfunc", "stream", "usercls", "nan",
             "alist", "adict", "plainobj", "emptylist"]


def objtable():
  """Objects that are DATA here although many are callable; one instance each for the whole process."""
  if not _TABLE:
    import functools, audiolazy
    _TABLE.update({"abs": abs, "float": float, "list": list, "lambda": (lambda *a: "lambda-called"),
                   "bound": [].append, "partial": functools.partial(int, "7"), "callobj": CallObj(),
                   "genfunc": _genfunc, "stream": audiolazy.Stream([1, 2, 3]), "usercls": CallObj,
                   "nan": float("nan"), "alist": [1, [2]], "adict": {"k": 1}, "plainobj": object(), "emptylist": []})
  return _TABLE


def enc(x):
  if isinstance(x, Obj):
    return ["obj", x.name]
  if _TABLE or not isinstance(x, (type(None), bool, int, str)):
    for name, o in objtable().items():
      if x is o:
        return ["obj", name]
  if isinstance(x, float) and (x != x or x in (float("inf"), float("-inf"))):
    return ["other", "float", repr(x)]
  if x is None:
    return ["None"]
  if isinstance(x, bool):
    return ["bool", int(x)]
  if isinstance(x, int):
    return ["int", x]
  if isinstance(x, float):
    return ["float", x.hex()]
  if isinstance(x, str):
    return ["str", x] if type(x) is str else ["other", type(x).__name__, repr(x)]
  if isinstance(x, bytes):
    return ["bytes", x.hex()] if type(x) is bytes else ["other", type(x).__name__, repr(x)]
  if isinstance(x, Fraction):
    return ["frac", x.numerator, x.denominator]
  if isinstance(x, tuple):
    return ["tuple", [enc(y) for y in x]]
  return ["other", type(x).__name__, repr(x)]


def dec(j):
  t = j[0]
  if t == "None":
    return None
  if t == "bool":
    return bool(j[1])
  if t == "int":
    return j[1]
  if t == "float":
    return float.fromhex(j[1])
  if t == "str":
    return j[1]
  if t == "frac":
    return Fraction(j[1], j[2])
  if t == "tuple":
    return tuple(dec(y) for y in j[1])
  if t == "obj":
    return objtable()[j[1]]
  if t == "bytes":
    return bytes.fromhex(j[1])
  raise ValueError(j)


def pv(j):
  """Coq literal of type pyv for an encoded value (short constructors of C08/Check.v)."""
  t = j[0]
  if t == "None":
    return "vn"
  if t in ("bool", "int"):
    return "(v%s %s)" % (t[0], j[1] if j[1] >= 0 else "(%d)" % j[1])
  if t == "float":
    f = float.fromhex(j[1])
    if f == 0.0 and j[1].startswith("-"):
      return "vfn"
    return "(vf %s)" % L.qc(f)
  if t == "str":
    return '(vs "%s")' % j[1].replace('"', '""')
  if t == "frac":
    return "(vq %s)" % L.qc(Fraction(j[1], j[2]))
  if t == "tuple":
    return '(vt "%s")' % repr(dec(j)).replace('"', '""')
  if t == "obj":
    return '(PV "object-by-identity" (IS %s))' % L.string(j[1])
  if t == "bytes":
    return '(PV "bytes" (IS %s))' % L.string(j[1])
  safe = "".join(ch if (32 <= ord(ch) < 127 and ch not in '"\\') else "?" for ch in j[2])[:60]
  return '(PV %s (IS %s))' % (L.string("other:" + j[1]), L.string(safe))


def pvl(js):
  return L.lst([pv(j) for j in js])


# ---------------------------------------------------------------- input kinds
class OnlyIter(object):
  """Nothing but __iter__ (no __len__, no __getitem__)."""
  def __init__(self, data):
    self.data = data

  def __iter__(self):
    return iter(self.data)


class SubList(list):
  pass


class RevList(list):
  """A list whose iteration order is its own business: blocks / zero_pad must see iter(seq)."""
  def __iter__(self):
    return iter(self[::-1])


class SubTuple(tuple):
  pass


ANY_KINDS = ["list", "tuple", "deque", "dqmax", "gen", "iter", "stream", "hub", "only", "sublist", "revlist",
             "subtuple", "chain", "map", "dictvals"]
INT_KINDS = ["range", "arr"]          # need small ints forming a range / fitting array('i')
SPECIAL_KINDS = ["keys", "rep"]
STR_KINDS = ["str", "strsub"]         # the sequence IS a text: its items are its characters
BYTE_KINDS = ["bytes", "bytearray"]   # items are ints 0..255


class SubStr(str):
  pass
       # distinct hashable items / one repeated item
LIVE_KINDS = ["list", "iter", "gen", "only", "stream", "hub", "sublist", "chain", "map"]  # see a live list through its iterator
REITERABLE = ["list", "tuple", "deque", "dqmax", "only", "sublist", "subtuple", "range", "arr"]


def consumed(kind, items):
  """What iter(source) hands over = the model's input."""
  return list(reversed(items)) if kind == "revlist" else list(items)


def mk_source(kind, items, live=None):
  """Returns (source object, container whose contents must stay untouched or None).
  live: an existing list to be looked at (histories), instead of a fresh copy."""
  import audiolazy
  base = live if live is not None else list(items)
  if kind == "list":
    return base, base
  if kind == "tuple":
    t = tuple(base); return t, t
  if kind == "deque":
    d = collections.deque(base); return d, d
  if kind == "dqmax":
    d = collections.deque(base, maxlen=len(base) + 1); return d, d
  if kind == "gen":
    return (x for x in base), base
  if kind == "iter":
    return iter(base), base
  if kind == "stream":
    return audiolazy.Stream(base), base
  if kind == "hub":
    return audiolazy.thub(base, 1), base
  if kind == "only":
    return OnlyIter(base), base
  if kind == "sublist":
    s = SubList(base) if live is None else live; return s, s
  if kind == "revlist":
    s = RevList(base); return s, s
  if kind == "subtuple":
    s = SubTuple(base); return s, s
  if kind == "chain":
    return itertools.chain(base), base
  if kind == "map":
    return map(lambda v: v, base), base
  if kind == "dictvals":
    d = dict(enumerate(base)); return d.values(), d
  if kind == "str":
    t = "".join(base); return t, t
  if kind == "strsub":
    t = SubStr("".join(base)); return t, t
  if kind == "bytes":
    t = bytes(base); return t, t
  if kind == "bytearray":
    t = bytearray(base); return t, t
  if kind == "range":
    r = range(base[0], base[-1] + 1) if base else range(0); return r, None
  if kind == "arr":
    a = array.array("i", base); return a, a
  if kind == "keys":
    d = dict.fromkeys(base); return d.keys(), d
  if kind == "rep":
    return (itertools.repeat(base[0], len(base)) if base else itertools.repeat(0, 0)), None
  raise ValueError(kind)


def contents(keep):
  """Encoded contents of the caller's container (to see that a call left it alone)."""
  if isinstance(keep, dict):
    return [enc(v) for v in keep.values()] if keep and list(keep.keys()) == list(range(len(keep))) else [enc(v) for v in keep.keys()]
  if isinstance(keep, list):
    return [enc(v) for v in list.__iter__(keep)]
  return [enc(v) for v in keep]


# ---------------------------------------------------------------- entry points and argument styles
def call_blocks(entry, style, src, size, hop, pad, hopmode="given", padmode="given"):
  """Returns an iterator over the yielded blocks.  entry: func | stream | scopy | hub | hub2.
  style: kw | pos | mix | rkw.  hopmode: given | omit | none.  padmode: given | omit."""
  import audiolazy
  args, kw = [], {}
  hopv = None if hopmode == "none" else hop
  if style == "pos" and not (hopmode == "omit" and padmode == "given"):
    args.append(size)
    if hopmode != "omit":
      args.append(hopv)
      if padmode == "given":
        args.append(pad)
  elif style == "mix":
    args.append(size)
    if hopmode != "omit":
      kw["hop"] = hopv
    if padmode == "given":
      kw["padval"] = pad
  else:  # kw / rkw (reverse keyword order) / pos that cannot be expressed positionally
    if padmode == "given":
      kw["padval"] = pad
    if hopmode != "omit":
      kw["hop"] = hopv
    kw["size"] = size
    if style == "kw":
      kw = dict(reversed(list(kw.items())))
  if entry == "func":
    if style == "rkw":
      return iter(audiolazy.blocks(seq=src, **kw))
    return iter(audiolazy.blocks(src, *args, **kw))
  if entry == "stream":
    return iter(audiolazy.Stream(src).blocks(*args, **kw))
  if entry == "scopy":
    return iter(audiolazy.Stream(src).copy().blocks(*args, **kw))
  if entry == "hub":
    h = src if isinstance(src, audiolazy.StreamTeeHub) else audiolazy.thub(src, 1)
    return iter(h.blocks(*args, **kw))
  if entry == "hub2":
    h = audiolazy.thub(src, 2)
    return lockstep(iter(h.blocks(*args, **kw)), iter(h.blocks(*args, **kw)))
  raise ValueError(entry)


class CopiesDiffer(Exception):
  pass


def lockstep(g1, g2):
  """Two copies of one hub consumed alternately: both must give the same blocks."""
  while True:
    a = b = None
    try:
      a = [enc(v) for v in next(g1)]
    except StopIteration:
      pass
    try:
      b = [enc(v) for v in next(g2)]
    except StopIteration:
      pass
    if a != b:
      raise CopiesDiffer()
    if a is None:
      return
    yield [dec(j) for j in a]


def call_zpad(style, src, left, right, zero, zmode="given"):
  """style kw | pos | mix; zmode given | omit (zero must then be 0.0); left / right omitted when 0 in style 'min'."""
  import audiolazy
  if style == "pos":
    return iter(audiolazy.zero_pad(src, left, right, zero) if zmode == "given" else audiolazy.zero_pad(src, left, right))
  if style == "mix":
    kw = {"zero": zero} if zmode == "given" else {}
    return iter(audiolazy.zero_pad(src, left, right=right, **kw))
  if style == "min":
    kw = {"zero": zero} if zmode == "given" else {}
    if left:
      kw["left"] = left
    if right:
      kw["right"] = right
    return iter(audiolazy.zero_pad(src, **kw))
  kw = {"zero": zero} if zmode == "given" else {}
  return iter(audiolazy.zero_pad(seq=src, right=right, left=left, **kw))


# ---------------------------------------------------------------- live histories (reference bookkeeping for generation)
def items_read(size, hop, k):
  return 0 if k == 0 else (k - 1) * hop + size


def apply_op(buf, op):
  """Performs the owner's change IN PLACE on the list object."""
  o = op["op"]
  if o == "ext":
    buf.extend(dec(j) for j in op["items"])
  elif o == "app":
    buf.append(dec(op["items"][0]))
  elif o == "trunc":
    del buf[op["n"]:]
  elif o == "set":
    buf[op["i"]] = dec(op["items"][0])
  elif o == "ins":
    buf.insert(op["i"], dec(op["items"][0]))
  elif o == "del":
    del buf[op["i"]]
  elif o == "tail":
    buf[op["i"]:] = [dec(j) for j in op["items"]]
  elif o == "iadd":
    buf += [dec(j) for j in op["items"]]
  else:
    raise ValueError(o)
