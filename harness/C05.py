# -*- coding: utf-8 -*-
"""C05 - Filter algebra is system algebra: ZFilter operators, substitution, ==/!=/hash,
CascadeFilter / ParallelFilter against coq/theories/C05/Model.v and the Spec definitions."""
import itertools
from fractions import Fraction
from vlib.framework import Family
from vlib import coqlit as L
from vlib.exactq import ExactQ, LinForm, to_frac

PID = "C05"
PROP_FILES = ["Prop"]
ALLOWED_AXIOMS = []
EXTRA_COQ_DIRS = ["C04", "C07"]
RULE = ("tree: random operator trees (depth <= 4) over + - * / ** (exponents -3..3), unary -, +, scalar and reflected "
        "forms and substitution f(g), on a pool of rational filters of order <= 3 (coefficient lists, dicts with "
        "negative / shifted powers, stored zeros, z, the zero filter), each applied to an exact input of length 0..7 "
        "or to one basis vector of a symbolic LinForm input (one symbolic run = every input of that length); "
        "non-trivial = at least one operator, a result with >= 2 stored terms and a non-empty input. sys: every "
        "system-level law of the text (add, sub, scale, mul = composition both ways, (f/g)*g, f**n = n-fold, z**-k "
        "delay) on causal operands (trees of depth <= 2) and inputs as above; non-trivial = composite ran and the "
        "input is non-empty. eq: == != hash on all ordered pairs of a pool (incl. pairs equal in numerator or "
        "denominator only), equal filters built in different orders / along different paths (== demanded), near "
        "misses; non-trivial = both sides exist and one has >= 2 terms. flist: CascadeFilter / ParallelFilter of "
        "0..4 filters: output, stage-by-stage outputs, numpoly / denpoly, reduce(mul/add) filter output; "
        "non-trivial = >= 2 members and non-empty input. tree also holds a dedicated stream of powers -3..2 on every "
        "(number of numerator terms x number of denominator terms) shape around the len >= 2 test of __pow__. lin: "
        "linearize on filters whose numerator / denominator powers are quarter-integers in [-2, 5] (floats, exact), "
        "with and without a fractional constructor shift; non-trivial = a fractional power present and a filter "
        "returned. hist: histories on live objects - (operands) 2-3 filter objects, 2-4 operator steps built on "
        "those SAME objects and on earlier results (f ** -n, /, +, -, *, f(g), scalars), after every step the result "
        "and every operand are observed again (stored items, output, == against the same filter built afresh): "
        "operators must not change their operands; (lists) nested CascadeFilter / ParallelFilter objects edited in "
        "place (setitem, append, pop, pop+append, insert, del, also inside a nested member) between reads of "
        "numpoly / denpoly / output, and read through every input kind (list, tuple, generator, iterator, Stream, "
        "the Stream another filter returned, thub, deque, range); the other families draw the input kind at random "
        "too. Distinct = distinct case hash.")
EXHAUSTIVE = {"quick": False, "thorough": False}
trusted_base = [
  "coefficients are exact rationals (ExactQ, the int 1 the library itself stores); powers are Python ints; "
  "Stream-valued (time-varying) coefficients and non-integer powers are outside this property's model",
  "applying a filter = C04's model of LinearFilter.__call__ (code generator + interpreter), tied to the code by C04's "
  "own check; here only memory=None and a numeric zero are used",
  "hash: the model says on which list of powers hash(filter) depends (sorted numerator powers + sorted denominator "
  "powers); that equal tuples of ints hash equally is CPython, not modelled",
  "symbolic inputs: a LinForm run is decomposed into its basis responses (LinForm raises on any non-linear use)",
  "linearize: the model starts from list(poly.terms()) of the filter as the implementation yields it (the Poly "
  "constructor with fractional float keys is not modelled); float powers are dyadic so the weights are exact",
]
ASSUMPTIONS = ["coefficient arithmetic stays inside the exact rationals (one numeric type Qc in the model)",
               "OrderedDict keeps insertion order, re-assignment keeps the position (CPython)",
               "Stream + Stream is the elementwise sum of equally long finite outputs (C01)"]

COEFS = [Fraction(1), Fraction(-1), Fraction(2), Fraction(-3), Fraction(1, 2), Fraction(-2, 3), Fraction(5, 4),
         Fraction(3), Fraction(-1, 4), Fraction(1, 3)]
SIMPLE = [Fraction(1), Fraction(-1), Fraction(2), Fraction(1, 2), Fraction(-2)]


def fr(x):
  x = Fraction(x)
  return [x.numerator, x.denominator]


def Q(frl):
  return ExactQ(Fraction(frl[0], frl[1]))


# ----------------------------------------------------------------------------- expression trees
def rand_list(rng, n, pool, zero_p=0.12, first_nz=False):
  out = []
  for i in range(n):
    c = Fraction(0) if rng.random() < zero_p else rng.choice(pool)
    if i == 0 and first_nz and c == 0:
      c = rng.choice(pool)
    out.append(fr(c))
  return out


def rand_leaf(rng, causal=False, pool=COEFS, maxord=3):
  """A rational filter of order <= maxord.  causal: numerator and denominator lists with a0 != 0."""
  r = rng.random()
  if causal or r < 0.55:
    b = rand_list(rng, rng.randrange(1, maxord + 2), pool)
    if rng.random() < 0.3:
      return ["num", b]
    a = rand_list(rng, rng.randrange(1, maxord + 2), pool, first_nz=True)
    if not causal and rng.random() < 0.12:
      a = [fr(0)] * rng.randrange(1, 3) + a          # leading zeros: the constructor shifts
    return ["lists", b, a]
  if r < 0.80:
    nk = rng.sample(range(-2, 4), rng.randrange(0, 4))
    dk = rng.sample(range(-2, 4), rng.randrange(1, 4))
    n = [[k, fr(rng.choice(pool + [Fraction(0)]))] for k in nk]
    d = [[k, fr(rng.choice(pool))] for k in dk]
    if rng.random() < 0.15 and n:
      n.append([n[0][0], fr(rng.choice(pool))])        # repeated key: the last value wins
    return ["dict", n, d]
  if r < 0.92:
    return ["z"]
  if r < 0.96:
    return ["num", [fr(0)]]                            # the zero filter
  return ["lists", rand_list(rng, 2, pool), [fr(0), fr(0)]]   # zero denominator: ValueError


BIN = ["add", "sub", "mul", "div"]
SCAL = ["adds", "subs", "muls", "divs"]
RSCAL = ["sadd", "ssub", "smul", "sdiv"]


def rand_expr(rng, depth, causal=False, pool=COEFS, ops=None, maxord=3):
  if depth == 0 or rng.random() < 0.12:
    return rand_leaf(rng, causal, pool, maxord)
  ops = ops or (["neg", "pos"] + BIN * 4 + SCAL + RSCAL + ["pow"] * 3 + ["call"] * 2)
  op = rng.choice(ops)
  sub = lambda d=depth - 1: rand_expr(rng, d, causal, pool, ops, maxord)
  c = fr(rng.choice(pool + ([Fraction(0)] if rng.random() < 0.15 else [])))
  if op in ("neg", "pos"):
    return [op, sub()]
  if op in BIN:
    return [op, sub(), sub()]
  if op in SCAL:
    return [op, sub(), c]
  if op in RSCAL:
    return [op, c, sub()]
  if op == "pow":
    n = rng.choice([0, 1, 2, 2, 3, -1, -1, -2, -3] if not causal else [0, 1, 2, 2, 3])
    return [op, sub(depth - 1 if abs(n) < 3 else max(depth - 2, 0)), n]
  if op == "call":
    return [op, rand_expr(rng, max(depth - 2, 0), causal, SIMPLE, ops, 2),
            rand_expr(rng, max(depth - 2, 0), causal, SIMPLE, ops, 2)]
  raise ValueError(op)


def deg_est(e):
  """Rough degree of the unreduced fraction a tree evaluates to (the fractions are never reduced, so
  nested powers / substitutions grow fast); used to keep generated trees cheap to evaluate."""
  t = e[0]
  if t == "lists": return max(len(e[1]), len(e[2]))
  if t == "num": return max(len(e[1]), 1)
  if t == "dict": return 6
  if t == "z": return 1
  if t in ("neg", "pos"): return deg_est(e[1])
  if t in SCAL: return deg_est(e[1])
  if t in RSCAL: return deg_est(e[2])
  if t in BIN: return deg_est(e[1]) + deg_est(e[2])
  if t == "pow": return abs(e[2]) * deg_est(e[1])
  if t == "call":
    da, dg = deg_est(e[1]), deg_est(e[2])
    return (da + 1) * (da + 1) * max(dg, 1)
  raise ValueError(t)


DEG_LIMIT = 48


def bounded_expr(rng, depth, *args, **kw):
  """rand_expr, resampled (with the same rng, deterministically) until the degree estimate is small"""
  for _ in range(50):
    e = rand_expr(rng, depth, *args, **kw)
    if deg_est(e) <= DEG_LIMIT:
      return e
  return rand_leaf(rng, bool(args and args[0]))


def has_op(e):
  return e[0] not in ("dict", "lists", "num", "z")


def build(e):
  """Evaluates an expression tree with the real ZFilter class."""
  from collections import OrderedDict
  import audiolazy
  ZFilter = audiolazy.ZFilter
  t = e[0]
  if t == "dict":
    return ZFilter(OrderedDict((k, Q(c)) for k, c in e[1]), OrderedDict((k, Q(c)) for k, c in e[2]))
  if t == "lists":
    return ZFilter([Q(c) for c in e[1]], [Q(c) for c in e[2]])
  if t == "num":
    return ZFilter([Q(c) for c in e[1]])
  if t == "z":
    return audiolazy.z
  if t == "neg": return -build(e[1])
  if t == "pos": return +build(e[1])
  if t in BIN or t == "call":
    a = build(e[1]); b = build(e[2])
    if t == "add": return a + b
    if t == "sub": return a - b
    if t == "mul": return a * b
    if t == "div": return a / b
    return a(b)
  if t in SCAL:
    a = build(e[1]); c = Q(e[2])
    if t == "adds": return a + c
    if t == "subs": return a - c
    if t == "muls": return a * c
    return a / c
  if t in RSCAL:
    c = Q(e[1]); a = build(e[2])
    if t == "sadd": return c + a
    if t == "ssub": return c - a
    if t == "smul": return c * a
    return c / a
  if t == "pow":
    return build(e[1]) ** e[2]
  raise ValueError(t)


# ----------------------------------------------------------------------------- observing the implementation
def terms_of(p):
  out = []
  for k, v in p.terms(sort=False):
    if isinstance(k, bool) or not isinstance(k, int):
      raise TypeError("non-int power stored: %r" % (k,))
    out.append([k, fr(to_frac(v))])
  return out


def filt_of(f):
  return [terms_of(f.numpoly), terms_of(f.denpoly)]


def safe(fn):
  try:
    return ["ok", fn()]
  except Exception as e:
    return ["raise", type(e).__name__]


def mkx(xs):
  """Input spec: ["q", [fractions]] exact samples, or ["sym", N, j]: symbolic samples x0..x{N-1}
  (the observation is then the response to the j-th basis vector: the coefficient of xj)."""
  if xs[0] == "q":
    return [Q(v) for v in xs[1]]
  if xs[0] == "range":
    return [ExactQ(i) for i in range(xs[1])]
  return [LinForm.var("x%d" % i) for i in range(xs[1])]


def x_fracs(xs):
  if xs[0] == "q":
    return xs[1]
  if xs[0] == "range":
    return [fr(i) for i in range(xs[1])]
  return [fr(1 if i == xs[2] else 0) for i in range(xs[1])]


def out_fracs(xs, ys):
  if xs[0] in ("q", "range"):
    return [fr(to_frac(y)) for y in ys]
  res = []
  for y in ys:
    lf = LinForm.lift(y)
    if lf is None:
      raise TypeError("not a linear form: %r" % (y,))
    if lf.const() != 0:
      raise ValueError("affine output for a zero state: %r" % (y,))
    res.append(fr(lf.co.get("x%d" % xs[2], Fraction(0))))
  return res


IN_KINDS = ["list", "tuple", "gen", "iter", "stream", "thub", "deque", "range", "stream_out"]


def as_kind(vals, kind):
  """The same samples carried by another kind of iterable"""
  from collections import deque
  import audiolazy
  vals = list(vals)
  if kind == "tuple": return tuple(vals)
  if kind == "gen": return (v for v in vals)
  if kind == "iter": return iter(vals)
  if kind == "stream": return audiolazy.Stream(vals)
  if kind == "stream_out": return audiolazy.ZFilter([1])(vals, zero=0)     # the Stream another filter returned
  if kind == "thub": return audiolazy.thub(vals, 1)
  if kind == "deque": return deque(vals)
  if kind == "range" and all(isinstance(v, ExactQ) and v.frac == i for i, v in enumerate(vals)):
    return range(len(vals))
  return vals


def apply_filter(f, x, zero, kind="list"):
  """list(f(x)) with the default zero (0.0), the int 0 or an exact 0; x given as the requested kind of iterable"""
  x = as_kind(x, kind)
  if zero == "default":
    return list(f(x))
  return list(f(x, zero=(0 if zero == "int" else ExactQ(0))))


def run_tree(c):
  r = safe(lambda: build(c["e"]))
  if r[0] == "raise":
    return {"filt": r, "out": r}
  f = r[1]
  return {"filt": ["ok", filt_of(f)],
          "out": safe(lambda: out_fracs(c["x"], apply_filter(f, mkx(c["x"]), c.get("zero", "default"), c.get("kind", "list"))))}


def comp_tree(kind, a, b, cc, n):
  return {"add": ["add", a, b], "sub": ["sub", a, b], "mul": ["mul", a, b], "divmul": ["mul", ["div", a, b], b],
          "scalel": ["smul", cc, a], "scaler": ["muls", a, cc], "divs": ["divs", a, cc], "pow": ["pow", a, n],
          "delay": ["pow", ["z"], -n]}[kind]


def run_sys(c):
  xs, zero = c["x"], c.get("zero", "default")
  ap = lambda f, x: apply_filter(f, x, zero, c.get("inkind", "list"))
  fin = lambda fn: safe(lambda: out_fracs(xs, fn()))
  a_ = safe(lambda: build(c["a"])); b_ = safe(lambda: build(c["b"]))
  comp = safe(lambda: build(comp_tree(c["kind"], c["a"], c["b"], c["c"], c["n"])))
  def on(r, fn):
    return r if r[0] == "raise" else fin(lambda: fn(r[1]))
  def iterate(f):
    y = mkx(xs)
    for _ in range(max(c["n"], 0)):
      y = ap(f, y)
    return y
  return {"comp": on(comp, lambda f: ap(f, mkx(xs))),
          "ya": on(a_, lambda f: ap(f, mkx(xs))), "yb": on(b_, lambda f: ap(f, mkx(xs))),
          "yab": _yab(a_, b_, ap, xs, fin),
          "yba": _yab(b_, a_, ap, xs, fin),
          "yit": on(a_, iterate)}


def _yab(a_, b_, ap, xs, fin):
  """a(b(x)) in the order the model binds: build b, run b, then build a (errors in that order)"""
  if b_[0] == "raise": return b_
  inner = safe(lambda: ap(b_[1], mkx(xs)))
  if inner[0] == "raise": return inner
  if a_[0] == "raise": return a_
  return fin(lambda: ap(a_[1], inner[1]))


def run_eq(c):
  a = safe(lambda: build(c["a"])); b = safe(lambda: build(c["b"]))
  o = {"fa": a if a[0] == "raise" else ["ok", filt_of(a[1])],
       "fb": b if b[0] == "raise" else ["ok", filt_of(b[1])]}
  if a[0] == "ok" and b[0] == "ok":
    f, g = a[1], b[1]
    o["eq"] = bool(f == g); o["ne"] = bool(f != g); o["heq"] = bool(hash(f) == hash(g))
    o["ha"] = [int(k) for k in tuple(f.numdict) + tuple(f.dendict)]
    o["hb"] = [int(k) for k in tuple(g.numdict) + tuple(g.dendict)]
  return o


def run_flist(c):
  import audiolazy, operator
  from functools import reduce
  xs, zero = c["x"], c.get("zero", "int")
  fs = [build(e) for e in c["es"]]
  cls = audiolazy.ParallelFilter if c["par"] else audiolazy.CascadeFilter
  lst = cls(*fs) if c.get("star", True) else cls(fs)
  kw = {} if zero == "default" else {"zero": (0 if zero == "int" else ExactQ(0))}
  fin = lambda fn: safe(lambda: out_fracs(xs, fn()))
  o = {"out": fin(lambda: list(lst(as_kind(mkx(xs), c.get("kind", "list")), **kw))),
       "num": safe(lambda: terms_of(lst.numpoly)), "den": safe(lambda: terms_of(lst.denpoly))}
  parts = []
  if c["par"]:
    for f in fs:
      parts.append(fin(lambda: list(f(mkx(xs), **kw))))
  else:
    cur = ["ok", mkx(xs)]
    for f in fs:
      if cur[0] == "ok":
        cur = safe(lambda: list(f(cur[1], **kw)))
      parts.append(cur if cur[0] == "raise" else fin(lambda: cur[1]))
  o["parts"] = parts
  o["fold"] = fin(lambda: list(reduce(operator.add if c["par"] else operator.mul, fs)(mkx(xs), **kw)))
  return o


# ----------------------------------------------------------------------------- Coq literals
def q(frl):
  return "(qc (%d) %d)" % (frl[0], frl[1])


def zl(n):
  return "(%d)%%Z" % n


def pairs_lit(l):
  return L.lst(["(%s, %s)" % (zl(k), q(c)) for k, c in l])


def qlist_lit(l):
  return L.lst([q(v) for v in l])


def filt_lit(nd):
  return "(%s, %s)" % (pairs_lit(nd[0]), pairs_lit(nd[1]))


def expr_lit(e):
  t = e[0]
  if t == "dict": return "(FDict %s %s)" % (pairs_lit(e[1]), pairs_lit(e[2]))
  if t == "lists": return "(FLists %s %s)" % (qlist_lit(e[1]), qlist_lit(e[2]))
  if t == "num": return "(FNum %s)" % qlist_lit(e[1])
  if t == "z": return "FZ"
  un = {"neg": "FNeg", "pos": "FPos"}
  if t in un: return "(%s %s)" % (un[t], expr_lit(e[1]))
  bi = {"add": "FAdd", "sub": "FSub", "mul": "FMul", "div": "FDiv", "call": "FCall"}
  if t in bi: return "(%s %s %s)" % (bi[t], expr_lit(e[1]), expr_lit(e[2]))
  sc = {"adds": "FAddS", "subs": "FSubS", "muls": "FMulS", "divs": "FDivS"}
  if t in sc: return "(%s %s %s)" % (sc[t], expr_lit(e[1]), q(e[2]))
  cs = {"sadd": "FSAdd", "ssub": "FSSub", "smul": "FSMul", "sdiv": "FSDiv"}
  if t in cs: return "(%s %s %s)" % (cs[t], q(e[1]), expr_lit(e[2]))
  if t == "pow": return "(FPow %s %s)" % (expr_lit(e[1]), zl(e[2]))
  raise ValueError(t)


def res_lit(r, f):
  if r is None:
    return '(Raise "-")'
  if r[0] == "ok":
    return "(Ok %s)" % f(r[1])
  return "(Raise %s)" % L.string(r[1])


def lit_tree(c, o):
  return "(TC %s %s %s %s)" % (expr_lit(c["e"]), qlist_lit(x_fracs(c["x"])),
                               res_lit(o.get("filt"), filt_lit), res_lit(o.get("out"), qlist_lit))


KINDS = {"add": "KAdd", "sub": "KSub", "mul": "KMul", "divmul": "KDivMul", "scalel": "KScaleL", "scaler": "KScaleR",
         "divs": "KDivS", "pow": "KPow", "delay": "KDelay"}


def lit_sys(c, o):
  g = lambda k: res_lit(o.get(k), qlist_lit)
  return "(SC %s %s %s %s %s %s %s %s %s %s %s %s)" % (
    KINDS[c["kind"]], expr_lit(c["a"]), expr_lit(c["b"]), q(c["c"]), zl(c["n"]), qlist_lit(x_fracs(c["x"])),
    g("comp"), g("ya"), g("yb"), g("yab"), g("yba"), g("yit"))


def lit_eq(c, o):
  return "(QC %s %s %s %s %s %s %s %s %s %s)" % (
    expr_lit(c["a"]), expr_lit(c["b"]), L.boolean(c["must"]),
    res_lit(o.get("fa"), filt_lit), res_lit(o.get("fb"), filt_lit),
    L.boolean(o.get("eq", False)), L.boolean(o.get("ne", False)), L.boolean(o.get("heq", False)),
    L.lst([zl(k) for k in o.get("ha", [])]), L.lst([zl(k) for k in o.get("hb", [])]))


def lit_flist(c, o):
  return "(LC %s %s %s %s %s %s %s %s)" % (
    L.boolean(c["par"]), L.lst([expr_lit(e) for e in c["es"]]), qlist_lit(x_fracs(c["x"])),
    res_lit(o.get("out"), qlist_lit), res_lit(o.get("num"), pairs_lit), res_lit(o.get("den"), pairs_lit),
    L.lst([res_lit(p, qlist_lit) for p in o.get("parts", [])]), res_lit(o.get("fold"), qlist_lit))


# ----------------------------------------------------------------------------- generators
XVALS = [Fraction(1), Fraction(-1), Fraction(2), Fraction(0), Fraction(1, 2), Fraction(-3), Fraction(5, 3), Fraction(-1, 4)]


def rand_inputs(rng, sym_p=0.25):
  """One exact input, or all basis vectors of a symbolic input (the whole input space of that length)."""
  if rng.random() < sym_p:
    n = rng.randrange(2, 5)
    return [["sym", n, j] for j in range(n)]
  return [["q", [fr(rng.choice(XVALS)) for _ in range(rng.choice([0, 1, 2, 3, 4, 4, 5, 5, 6, 7]))]]]


def rand_kind(rng):
  return rng.choice(IN_KINDS[:7] + ["stream", "stream_out", "list"])


def rand_zero(rng):
  return rng.choice(["default", "default", "int", "q"])


def xtag(x):
  return "x=sym" if x[0] == "sym" else "x=range" if x[0] == "range" else "x=len%d" % len(x[1])


ONE = [1, 1]
F1 = ["lists", [ONE, [1, 2]], [ONE, [-1, 3]]]
F2 = ["lists", [[2, 1], [0, 1], ONE], [ONE, [1, 2]]]
ACC = ["lists", [ONE], [ONE, [-1, 1]]]                    # 1 / (1 - z^-1)
X4 = ["q", [fr(1), fr(2), fr(-1), fr(3)]]
IMP = ["q", [fr(1), fr(0), fr(0), fr(0), fr(0)]]

EDGE_TREES = [
  ["z"], ["num", [[0, 1]]], ["num", []], ["lists", [ONE], [[0, 1], [0, 1]]], ["lists", [ONE], []],
  ["lists", [ONE], [[0, 1], ONE, ONE]], ["dict", [], [[2, ONE]]], ["dict", [[-1, ONE]], [[-2, ONE], [1, [3, 1]]]],
  ["add", F1, F1], ["add", ACC, ACC], ["sub", F1, F1], ["div", F1, F1], ["div", F1, ["sub", F1, F1]],
  ["pow", ["sub", F1, F1], -1], ["pow", ["num", [[0, 1]]], -1], ["pow", ["num", [[0, 1]]], 0], ["pow", F1, 0],
  ["pow", F1, -2], ["pow", ["z"], -3], ["pow", ["z"], 2], ["pow", ["num", [[2, 1]]], -2],
  ["pow", ["lists", [[2, 1]], [[4, 1]]], -1], ["sdiv", [3, 1], F1], ["sdiv", [3, 1], ["num", [[0, 1]]]],
  ["divs", F1, [0, 1]], ["divs", F1, [3, 1]], ["ssub", [3, 1], F1], ["subs", F1, [3, 1]], ["sadd", [0, 1], F1],
  ["call", F1, F2], ["call", ["add", ["num", [ONE, ONE]], ["num", [[0, 1]]]], ["pow", ["z"], -1]],
  ["call", ["num", [ONE, ONE]], ["neg", ["pow", ["z"], 2]]], ["call", ["num", [[0, 1]]], F1],
  ["call", F1, ["num", [[0, 1]]]], ["call", ["z"], F1], ["call", ["pow", ["z"], -1], ["sub", F1, F1]],
  ["call", ["lists", [ONE], [ONE, ONE]], ["num", [[-1, 1]]]],
  ["div", ["num", [ONE]], ["add", ["pow", ["z"], -1], ["pow", ["z"], -2]]],
  ["mul", ["div", F1, ["pow", ["z"], -2]], ["pow", ["z"], -2]],
  ["add", ["lists", [ONE], [ONE, [1, 2]]], ["lists", [[2, 1]], [[2, 1], ONE]]],
  ["add", ["dict", [[0, ONE]], [[0, ONE], [1, [1, 2]]]], ["dict", [[1, ONE]], [[1, [1, 2]], [0, ONE]]]],
]


def gen_tree(tier, rng):
  for e in EDGE_TREES:
    for x in (X4, ["sym", 3, 0], ["sym", 3, 2]):
      yield {"e": e, "x": x, "zero": "default", "tags": ["edge", e[0], xtag(x)]}
  # powers on every (number of numerator terms, number of denominator terms) shape around the
  # "len(...) >= 2" test of __pow__, all exponents -3..3
  for rnd in range(2 if tier == "quick" else 20):
    for na, nb in [(1, 1), (1, 2), (2, 1), (2, 2), (1, 3), (3, 1), (0, 1), (0, 2), (2, 3)]:
      nk = rng.sample(range(0, 4), na)
      dk = [0] + rng.sample(range(1, 4), nb - 1) if rng.random() < 0.7 else rng.sample(range(-1, 4), nb)
      leaf = ["dict", [[k, fr(rng.choice(COEFS))] for k in nk], [[k, fr(rng.choice(COEFS))] for k in dk]]
      for n in (-3, -2, -1, 0, 1, 2):
        for x in rand_inputs(rng, 0.5)[:2]:
          yield {"e": ["pow", leaf, n], "x": x, "zero": "default", "tags": ["powshape", "%dx%d" % (na, nb), "n=%d" % n, xtag(x)]}
  n = 400 if tier == "quick" else 7000
  for i in range(n):
    depth = rng.choice([1, 1, 2, 2, 2, 3, 3, 4])
    causal = rng.random() < 0.45                      # all-causal trees exercise the signal side
    pool = COEFS if depth <= 2 else SIMPLE
    e = bounded_expr(rng, depth, causal, pool, maxord=(3 if depth <= 3 else 2))
    zero = rand_zero(rng)
    for x in rand_inputs(rng):
      yield {"e": e, "x": x, "zero": zero, "kind": rand_kind(rng),
             "tags": ["random", "depth=%d" % depth, "top=" + e[0], xtag(x), "causal" if causal else "any"]}


def nontrivial_tree(c, o):
  f = o.get("filt")
  return bool(has_op(c["e"]) and f and f[0] == "ok" and len(f[1][0]) + len(f[1][1]) >= 3 and len(x_fracs(c["x"])) > 0)


def gen_sys(tier, rng):
  edge = [("add", ACC, ACC), ("add", F1, F2), ("sub", F1, F1), ("mul", F1, F2), ("divmul", F1, F2),
          ("divmul", F1, ["pow", ["z"], -2]), ("divmul", F1, ["num", [[0, 1]]]), ("divmul", F1, ["sub", F2, F2]),
          ("scalel", F1, F2), ("scaler", F1, F2), ("divs", F1, F2), ("pow", F1, F2), ("pow", ACC, F2), ("delay", F1, F2),
          ("mul", ["z"], F1), ("add", ["z"], F1)]
  for kind, a, b in edge:
    for n in (0, 1, 3):
      for x in (X4, IMP, ["sym", 3, 1]):
        yield {"kind": kind, "a": a, "b": b, "c": [-2, 3], "n": n, "x": x, "zero": "default",
               "tags": ["edge", kind, xtag(x)]}
  rounds = 35 if tier == "quick" else 600
  for i in range(rounds):
    for kind in KINDS:
      depth = rng.choice([0, 0, 1, 1, 2])
      ops = ["neg"] + ["add", "sub", "mul"] * 3 + ["adds", "muls", "smul", "pow"]
      a = bounded_expr(rng, depth, True, COEFS if depth < 2 else SIMPLE, ops)
      b = bounded_expr(rng, rng.choice([0, 0, 1]), True, COEFS, ops)
      if kind == "divmul" and rng.random() < 0.3:
        b = ["mul", ["pow", ["z"], -rng.randrange(1, 3)], b]          # a delay in the divisor
      if rng.random() < 0.06:
        b = bounded_expr(rng, 1, False)                                 # not necessarily causal
      n = rng.choice([0, 1, 2, 2, 3, 4]) if kind == "pow" else rng.choice([0, 1, 2, 3, 5, 8])
      if kind == "pow":
        n = min(n, max(1, DEG_LIMIT // max(deg_est(a), 1)))
      cc = fr(rng.choice(COEFS + [Fraction(0)]))
      zero = rand_zero(rng)
      for x in rand_inputs(rng, 0.3):
        yield {"kind": kind, "a": a, "b": b, "c": cc, "n": n, "x": x, "zero": zero, "inkind": rand_kind(rng),
               "tags": ["random", kind, xtag(x)]}


def nontrivial_sys(c, o):
  return o.get("comp", ["raise"])[0] == "ok" and len(x_fracs(c["x"])) > 0


def eq_pool(rng):
  """Rational filters of order <= 3, with members that share only the numerator or only the denominator."""
  bs = [rand_list(rng, rng.randrange(1, 5), COEFS) for _ in range(3)]
  as_ = [rand_list(rng, rng.randrange(1, 5), COEFS, first_nz=True) for _ in range(3)]
  pool = [["lists", b, a] for b in bs for a in as_]                     # every (num, den) combination
  pool.append(["num", bs[0]])
  pool.append(["z"])
  pool.append(["dict", [[k, c] for k, c in enumerate(bs[1])][::-1], [[k, c] for k, c in enumerate(as_[1])][::-1]])
  pool.append(["lists", bs[2] + [fr(0)], as_[2] + [fr(0), fr(0)]])     # trailing zeros: the same filter
  pool.append(["lists", [fr(0)] + bs[0], [fr(0)] + as_[0]])            # common delay: shifted away by the constructor
  pool.append(["lists", [fr(2 * Fraction(*c)) for c in bs[0]], [fr(2 * Fraction(*c)) for c in as_[0]]])  # same function, not ==
  return pool


def same_filter_pairs(rng):
  """(name, lhs, rhs): the same numerator and denominator polynomials along two paths: == is demanded."""
  mk = lambda: rand_leaf(rng, True, COEFS)
  a, b, c3 = mk(), mk(), mk()
  k = fr(rng.choice(COEFS))
  n = rng.randrange(0, 4)
  yield "add_comm", ["add", a, b], ["add", b, a]
  yield "mul_comm", ["mul", a, b], ["mul", b, a]
  yield "mul_assoc", ["mul", ["mul", a, b], c3], ["mul", a, ["mul", b, c3]]
  yield "add_assoc", ["add", ["add", a, b], c3], ["add", a, ["add", b, c3]]
  yield "distrib", ["mul", a, ["add", b, c3]], ["add", ["mul", a, b], ["mul", a, c3]]
  yield "sub_def", ["sub", a, b], ["add", a, ["neg", b]]
  yield "div_def", ["div", a, b], ["mul", a, ["pow", b, -1]]
  yield "scal_comm", ["muls", a, k], ["smul", k, a]
  yield "sadd_comm", ["adds", a, k], ["sadd", k, a]
  yield "pow_succ", ["pow", a, n + 1], ["mul", ["pow", a, n], a]
  yield "pow_neg", ["pow", a, -n], ["div", ["num", [ONE]], ["pow", a, n]]
  yield "pos", ["pos", a], a
  yield "negneg", ["neg", ["neg", a]], a
  yield "self", a, a


# laws that hold as rational functions but need not give == (different but equivalent fractions)
WEAK = ("add_assoc", "distrib", "div_def", "pow_neg")


def gen_eq(tier, rng):
  pools = 2 if tier == "quick" else 30
  for i in range(pools):
    pool = eq_pool(rng)
    for a, b in itertools.product(pool, repeat=2):
      yield {"a": a, "b": b, "must": a == b, "tags": ["pool", "same-expr" if a == b else "pair"]}
  rounds = 25 if tier == "quick" else 250
  for i in range(rounds):
    for name, lhs, rhs in same_filter_pairs(rng):
      yield {"a": lhs, "b": rhs, "must": name not in WEAK, "tags": ["law", name]}
  n = 100 if tier == "quick" else 1500
  for i in range(n):
    a = bounded_expr(rng, rng.choice([0, 1, 2]), rng.random() < 0.5)
    b = bounded_expr(rng, rng.choice([0, 1, 2]), rng.random() < 0.5) if rng.random() < 0.7 else a
    yield {"a": a, "b": b, "must": False, "tags": ["random", "same-expr" if a == b else "pair"]}


def nontrivial_eq(c, o):
  return o.get("fa", ["raise"])[0] == "ok" and o.get("fb", ["raise"])[0] == "ok" and \
         max(len(o["fa"][1][0]) + len(o["fa"][1][1]), len(o["fb"][1][0]) + len(o["fb"][1][1])) >= 3


def gen_flist(tier, rng):
  for par in (False, True):
    for es in ([], [F1], [F1, F2], [ACC, ACC], [ACC, ACC, ACC], [F1, ["z"]], [["pow", ["z"], -1], ["pow", ["z"], -2], F2]):
      for x in (X4, IMP, ["q", []], ["sym", 3, 0], ["sym", 3, 1]):
        for star in (True, False):
          yield {"par": par, "es": es, "x": x, "zero": "int", "star": star, "tags": ["edge", "par" if par else "casc", xtag(x)]}
  n = 100 if tier == "quick" else 1200
  for i in range(n):
    par = rng.random() < 0.5
    k = rng.choice([0, 1, 2, 2, 3, 3, 4])
    es = []
    for _ in range(k):
      e = bounded_expr(rng, rng.choice([0, 0, 1]), True, COEFS if k <= 3 else SIMPLE,
                       ["neg", "add", "sub", "mul", "muls", "pow"])
      if rng.random() < 0.04:
        e = rand_leaf(rng, False)
        while e[0] == "lists" and all(c[0] == 0 for c in e[2]):    # every member must be a filter object
          e = rand_leaf(rng, False)
      es.append(e)
    if par and k >= 2 and rng.random() < 0.4:            # equal denominators: the shortcut of __add__
      den = rand_list(rng, rng.randrange(1, 4), COEFS, first_nz=True)
      es = [["lists", rand_list(rng, rng.randrange(1, 4), COEFS), den] for _ in range(k)]
    zero = rng.choice(["int", "q", "default"])
    for x in rand_inputs(rng, 0.3):
      kd = rand_kind(rng)
      yield {"par": par, "es": es, "x": x, "zero": zero, "star": rng.random() < 0.7, "kind": kd,
             "tags": ["random", "par" if par else "casc", "k=%d" % k, xtag(x), "in=" + kd]}


def nontrivial_flist(c, o):
  return len(c["es"]) >= 2 and o.get("out", ["raise"])[0] == "ok" and len(x_fracs(c["x"])) > 0


# ----------------------------------------------------------------------------- linearize
def fkey(frl):
  """A power: an int when integral, else a float (dyadic, exact)"""
  f = Fraction(frl[0], frl[1])
  return int(f) if f.denominator == 1 else float(f)


def run_lin(c):
  from collections import OrderedDict
  import audiolazy
  r = safe(lambda: audiolazy.ZFilter(OrderedDict((fkey(k), Q(v)) for k, v in c["n"]),
                                     OrderedDict((fkey(k), Q(v)) for k, v in c["d"])))
  if r[0] == "raise":
    return {"build": r}
  f = r[1]
  kt = lambda p: [[fr(Fraction(k)), fr(to_frac(v))] for k, v in p.terms()]
  return {"tn": kt(f.numpoly), "td": kt(f.denpoly), "filt": safe(lambda: filt_of(f.linearize()))}


def lit_lin(c, o):
  ft = lambda l: L.lst(["(%s, %s)" % (q(k), q(v)) for k, v in l])
  return "(NC %s %s %s)" % (ft(o.get("tn", [])), ft(o.get("td", [])), res_lit(o.get("filt") or o.get("build"), filt_lit))


def gen_lin(tier, rng):
  quarter = [Fraction(a, 4) for a in range(-8, 21)]
  edge = [([[[17, 4], ONE]], [[[0, 1], ONE]]), ([[[-1, 2], ONE]], [[[0, 1], ONE]]), ([[[5, 2], ONE], [[2, 1], [-1, 2]], [[3, 1], [-1, 2]]], [[[0, 1], ONE]]),
          ([[[1, 2], ONE]], [[[0, 1], ONE], [[3, 2], [1, 3]]]), ([[[1, 1], ONE]], [[[1, 2], ONE], [[1, 1], [2, 1]]]), ([], [[[0, 1], ONE]]),
          ([[[3, 2], ONE], [[1, 1], [-1, 2]], [[2, 1], [-1, 2]]], [[[0, 1], ONE]])]
  for n, d in edge:
    yield {"n": n, "d": d, "tags": ["edge"]}
  cnt = 150 if tier == "quick" else 2500
  for i in range(cnt):
    nk = rng.sample(quarter, rng.randrange(0, 5))
    if rng.random() < 0.5:
      dk = [Fraction(0)] + [k for k in rng.sample(quarter, rng.randrange(0, 3)) if k > 0]
    else:
      dk = rng.sample(quarter, rng.randrange(1, 4))
      m = min(dk)
      if m.denominator != 1 and rng.random() < 0.7:
        dk = [k - m for k in dk]                      # lowest power 0: no fractional constructor shift
    n = [[fr(k), fr(rng.choice(COEFS + [Fraction(0)]))] for k in nk]
    d = [[fr(k), fr(rng.choice(COEFS))] for k in dk]
    frac = any(k.denominator != 1 for k in nk + dk)
    yield {"n": n, "d": d, "tags": ["random", "fractional" if frac else "integer",
                                     "negative" if any(k < 0 for k in nk + dk) else "causal"]}


def nontrivial_lin(c, o):
  return o.get("filt", ["raise"])[0] == "ok" and any(k[1] != 1 for k, _ in o.get("tn", []) + o.get("td", []))


# ----------------------------------------------------------------------------- histories on live objects
def inline(e, defs):
  """Replaces ["ref", i] by the expression that defines object i"""
  if e[0] == "ref":
    return defs[e[1]]
  return [inline(a, defs) if isinstance(a, list) and a and isinstance(a[0], str) else a for a in e]


def build_env(e, env):
  """build() on the SAME Python objects: ["ref", i] is env[i] itself"""
  import audiolazy
  t = e[0]
  if t == "ref": return env[e[1]]
  if t in ("dict", "lists", "num", "z"): return build(e)
  if t == "neg": return -build_env(e[1], env)
  if t == "pos": return +build_env(e[1], env)
  if t in BIN or t == "call":
    a = build_env(e[1], env); b = build_env(e[2], env)
    return {"add": lambda: a + b, "sub": lambda: a - b, "mul": lambda: a * b, "div": lambda: a / b, "call": lambda: a(b)}[t]()
  if t in SCAL:
    a = build_env(e[1], env); c = Q(e[2])
    return {"adds": lambda: a + c, "subs": lambda: a - c, "muls": lambda: a * c, "divs": lambda: a / c}[t]()
  if t in RSCAL:
    c = Q(e[1]); a = build_env(e[2], env)
    return {"sadd": lambda: c + a, "ssub": lambda: c - a, "smul": lambda: c * a, "sdiv": lambda: c / a}[t]()
  if t == "pow": return build_env(e[1], env) ** e[2]
  raise ValueError(t)


def obs_filter(f, e, xs, kind):
  """A tcase entry: the object's stored polynomials and its output now"""
  return {"e": e, "x": xs, "filt": safe(lambda: filt_of(f)),
          "out": safe(lambda: out_fracs(xs, apply_filter(f, mkx(xs), "int", kind)))}


def obs_same(f, e):
  """A qcase entry: the live object against the same filter built afresh (must be ==)"""
  o = run_eq({"a": e, "b": e})
  g = build(e)
  o["fa"] = safe(lambda: filt_of(f))
  o["eq"] = bool(f == g); o["ne"] = bool(f != g); o["heq"] = bool(hash(f) == hash(g))
  o["ha"] = [int(k) for k in tuple(f.numdict) + tuple(f.dendict)]
  o["e"] = e
  return o


def build_struct(st):
  import audiolazy
  if st[0] == "F":
    return build(st[1])
  cls = audiolazy.CascadeFilter if st[0] == "C" else audiolazy.ParallelFilter
  return cls(*[build_struct(m) for m in st[1]])


def polys_modelled(st):
  if st[0] == "F": return True
  if st[0] == "C": return all(polys_modelled(m) for m in st[1])
  return all(m[0] == "F" for m in st[1])


def obs_struct(obj, st, xs, kind, polys):
  import copy
  o = {"s": copy.deepcopy(st), "x": xs,
       "out": safe(lambda: out_fracs(xs, list(obj(as_kind(mkx(xs), kind), zero=0))))}
  if polys and polys_modelled(st):
    o["num"] = safe(lambda: terms_of(obj.numpoly)); o["den"] = safe(lambda: terms_of(obj.denpoly))
  return o


def at_path(x, path):
  for i in path:
    x = x[i] if not isinstance(x, list) or not x or not isinstance(x[0], str) else x[1][i]
  return x


def run_hist(c):
  ts, qs, os_ = [], [], []
  xs = c["x"]
  if c["hk"] == "operands":
    defs = list(c["objs"]); env = [build(e) for e in defs]
    for i, e in enumerate(defs):
      ts.append(obs_filter(env[i], e, xs, "list"))
    def refs(e):
      return [e[1]] if e[0] == "ref" else [j for a in e if isinstance(a, list) and a and isinstance(a[0], str) for j in refs(a)]
    for step, kind in zip(c["ops"], c["kinds"]):
      e = inline(step, defs)
      defs.append(e)
      if any(env[j] is None for j in refs(step)):      # built on a result that does not exist
        env.append(None)
        continue
      r = safe(lambda: build_env(step, env))
      if r[0] == "ok":
        env.append(r[1])
        ts.append(obs_filter(r[1], e, xs, kind))
      else:
        env.append(None)
        ts.append({"e": e, "x": xs, "filt": r, "out": r})
      for i in range(len(c["objs"])):                 # the operands, after they were used
        ts.append(obs_filter(env[i], defs[i], xs, kind)); qs.append(obs_same(env[i], defs[i]))
  else:                                                # a filter list edited in place / read through input kinds
    import copy
    st = copy.deepcopy(c["s"]); obj = build_struct(st)
    for step in c["steps"]:
      op = step[0]
      if op == "obs":
        os_.append(obs_struct(obj, st, xs, step[1], step[2]))
        continue
      tgt, sh = at_path(obj, step[1]), at_path(st, step[1])[1]
      if op == "set": tgt[step[2]] = build_struct(step[3]); sh[step[2]] = copy.deepcopy(step[3])
      elif op == "append": tgt.append(build_struct(step[2])); sh.append(copy.deepcopy(step[2]))
      elif op == "insert": tgt.insert(step[2], build_struct(step[3])); sh.insert(step[2], copy.deepcopy(step[3]))
      elif op == "pop": tgt.pop(); sh.pop()
      elif op == "del": del tgt[step[2]]; del sh[step[2]]
      else: raise ValueError(op)
  return {"ts": ts, "qs": qs, "os": os_}


def struct_lit(st):
  if st[0] == "F": return "(XF %s)" % expr_lit(st[1])
  return "(%s %s)" % ("XCasc" if st[0] == "C" else "XPar", L.lst([struct_lit(m) for m in st[1]]))


def lit_hist(c, o):
  if "ts" not in o:     # the harness itself failed on this history: never vacuous
    return '(HC [TC FZ [] (Raise "harness") (Raise "harness")] [] [])'
  opt = lambda r: "None" if r is None else "(Some %s)" % res_lit(r, pairs_lit)
  ts = [lit_tree(t, t) for t in o["ts"]]
  qs = [lit_eq({"a": q_["e"], "b": q_["e"], "must": True}, q_) for q_ in o["qs"]]
  os_ = ["(OC %s %s %s %s %s)" % (struct_lit(x["s"]), qlist_lit(x_fracs(x["x"])), res_lit(x["out"], qlist_lit),
                                  opt(x.get("num")), opt(x.get("den"))) for x in o["os"]]
  return "(HC %s %s %s)" % (L.lst(ts), L.lst(qs), L.lst(os_))


def delay_leaf(rng):
  """A causal filter whose numerator starts with a pure delay and has >= 2 terms somewhere"""
  b = [fr(0)] * rng.randrange(1, 3) + rand_list(rng, rng.randrange(1, 3), COEFS, zero_p=0, first_nz=True)
  a = rand_list(rng, rng.randrange(1, 4), COEFS, first_nz=True)
  return ["lists", b, a]


def hist_inputs(rng):
  r = rng.random()
  if r < 0.3: return ["range", rng.randrange(3, 8)]
  if r < 0.5: return ["sym", 3, rng.randrange(3)]
  return ["q", [fr(rng.choice(XVALS)) for _ in range(rng.randrange(3, 8))]]


def rand_struct(rng, depth, top=None):
  if depth == 0 or (top is None and rng.random() < 0.55):
    return ["F", delay_leaf(rng) if rng.random() < 0.25 else rand_leaf(rng, True, COEFS, 2)]
  kind = top or rng.choice(["C", "P"])
  return [kind, [rand_struct(rng, depth - 1) for _ in range(rng.randrange(0 if depth < 2 else 1, 4))]]


def list_paths(st, path=()):
  """paths of every filter list inside st"""
  if st[0] == "F": return []
  res = [list(path)]
  for i, m in enumerate(st[1]):
    res += list_paths(m, path + (i,))
  return res


def gen_hist(tier, rng):
  import copy
  R0, R1, R2 = ["ref", 0], ["ref", 1], ["ref", 2]
  acc = ["lists", [fr(0), ONE], [ONE, [-1, 1]]]           # z^-1 / (1 - z^-1)
  fixed = [([acc, F1], [["pow", R0, -1], ["pow", R0, -2], ["mul", ["pow", R0, -2], ["pow", R0, 2]], ["div", R1, R0]]),
           ([["lists", [fr(0), fr(0), ONE, [1, 2]], [[2, 1]]], F2], [["div", ["num", [ONE]], R0], ["add", R0, R1], ["pow", R0, -3]]),
           ([F1, F2], [["add", R0, R1], ["sub", R0, R0], ["call", R0, R1], ["pow", R1, -1], ["div", R0, R1]])]
  for objs, ops in fixed:
    for x in (X4, ["sym", 3, 1], ["range", 5]):
      yield {"hk": "operands", "objs": objs, "ops": ops, "kinds": ["list", "stream", "iter", "tuple", "gen"][:len(ops)], "x": x,
             "tags": ["edge", "operands"]}
  n = 50 if tier == "quick" else 600
  for i in range(n):
    objs = [delay_leaf(rng) if rng.random() < 0.5 else rand_leaf(rng, True, COEFS), rand_leaf(rng, True, COEFS),
            rand_leaf(rng, True, SIMPLE, 2)]
    refs = [R0, R0, R1, R2]
    ops = []
    for _ in range(rng.randrange(2, 5)):
      a, b = rng.choice(refs + [["ref", j + 3] for j in range(len(ops))]), rng.choice(refs)
      k = rng.choice(["pow-", "pow-", "pow+", "div", "rdiv", "add", "sub", "mul", "neg", "smul", "call", "divs"])
      ops.append({"pow-": ["pow", a, -rng.randrange(1, 4)], "pow+": ["pow", a, rng.randrange(0, 3)], "div": ["div", b, a],
                  "rdiv": ["sdiv", fr(rng.choice(COEFS)), a], "add": ["add", a, b], "sub": ["sub", a, b], "mul": ["mul", a, b],
                  "neg": ["neg", a], "smul": ["smul", fr(rng.choice(COEFS)), a], "call": ["call", b, ["pow", ["z"], -1]] if rng.random() < 0.5 else ["call", R2, a],
                  "divs": ["divs", a, fr(rng.choice(COEFS))]}[k])
    defs = list(objs)
    ok = True
    for o_ in ops:                                          # results may be reused: keep the history cheap
      defs.append(inline(o_, defs)); ok = ok and deg_est(defs[-1]) <= DEG_LIMIT
    if not ok:
      continue
    yield {"hk": "operands", "objs": objs, "ops": ops, "kinds": [rand_kind(rng) for _ in ops], "x": hist_inputs(rng),
           "tags": ["random", "operands"] + ["op=" + o_[0] for o_ in ops]}
  # filter lists: every input kind, then in-place edits between reads of numpoly / denpoly / output
  bank = ["P", [["F", ["lists", [ONE, [-2, 1]], [ONE]]], ["F", ["lists", [fr(0), fr(0), [3, 1]], [ONE, [-1, 1]]]]]]
  sweeps = [bank, ["C", [["F", ["pow", ["z"], -1]], bank]], ["C", [["F", F1], ["F", F2]]], ["F", F1],
            ["P", [["C", [["F", F1], bank]], ["F", F2]]], ["C", [bank, bank]]]
  for st in sweeps:
    for x in (["range", 6], ["q", [fr(v) for v in (3, -1, 4, 1, -5, 9)]], ["sym", 3, 0]):
      yield {"hk": "lists", "s": st, "x": x, "steps": [["obs", k, True] for k in IN_KINDS], "tags": ["edge", "kinds", st[0]]}
  m = 70 if tier == "quick" else 900
  for i in range(m):
    st = rand_struct(rng, 2, rng.choice(["C", "C", "P"]))
    sh = copy.deepcopy(st)
    steps = [["obs", rand_kind(rng), True]]
    for _ in range(rng.randrange(2, 6)):
      paths = list_paths(sh)
      path = rng.choice(paths)
      members = at_path(sh, path)[1]
      new = rand_struct(rng, 1 if len(path) < 1 else 0)
      op = rng.choice(["set", "set", "append", "pop", "insert", "del", "poppush"])
      if op in ("set", "pop", "del", "poppush") and not members:
        op = "append"
      if op == "set":
        j = rng.randrange(len(members)); steps.append(["set", path, j, copy.deepcopy(new)]); members[j] = new
      elif op == "append":
        steps.append(["append", path, copy.deepcopy(new)]); members.append(new)
      elif op == "insert":
        j = rng.randrange(len(members) + 1); steps.append(["insert", path, j, copy.deepcopy(new)]); members.insert(j, new)
      elif op == "pop":
        steps.append(["pop", path]); members.pop()
      elif op == "del":
        j = rng.randrange(len(members)); steps.append(["del", path, j]); del members[j]
      else:                                                 # same length again at the next read
        steps.append(["pop", path]); members.pop(); steps.append(["append", path, copy.deepcopy(new)]); members.append(new)
      if rng.random() < 0.8:
        steps.append(["obs", rand_kind(rng), rng.random() < 0.8])
    steps.append(["obs", rand_kind(rng), True])
    yield {"hk": "lists", "s": st, "x": hist_inputs(rng), "steps": steps,
           "tags": ["random", "lists", st[0]] + sorted(set("edit=" + t[0] for t in steps if t[0] != "obs"))}


def nontrivial_hist(c, o):
  return "ts" in o and len(o["ts"]) + len(o["os"]) >= 3


def known(c, o):
  return None


IMPORTS = "From AL Require Import C07.Model C05.Model C05.Spec C05.Check."
FAMILIES = {
  "tree": Family("tree", IMPORTS, "tcase", "corr_tree", "holds_tree", gen_tree, run_tree, lit_tree, nontrivial_tree, known),
  "sys": Family("sys", IMPORTS, "scase", "corr_sys", "holds_sys", gen_sys, run_sys, lit_sys, nontrivial_sys, known),
  "eq": Family("eq", IMPORTS, "qcase", "corr_eq", "holds_eq", gen_eq, run_eq, lit_eq, nontrivial_eq, known),
  "flist": Family("flist", IMPORTS, "lcase", "corr_flist", "holds_flist", gen_flist, run_flist, lit_flist, nontrivial_flist, known),
  "lin": Family("lin", IMPORTS, "ncase", "corr_lin", "holds_lin", gen_lin, run_lin, lit_lin, nontrivial_lin, known),
  "hist": Family("hist", IMPORTS, "hcase", "corr_hist", "holds_hist", gen_hist, run_hist, lit_hist, nontrivial_hist, known, timeout=30),
}
